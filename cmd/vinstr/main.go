// vinstr inserts verifrt.P("<site>") before every statement that is not lexically inside a Lock()..Unlock() region.
// Usage: vinstr <in.go> <out.go>   (prints the number of sites)
package main

import (
	"bytes"
	"fmt"
	"go/ast"
	"go/format"
	"go/parser"
	"go/token"
	"os"
	"path/filepath"
	"strings"
)

func main() {
	in, out := os.Args[1], os.Args[2]
	fset := token.NewFileSet()
	f, err := parser.ParseFile(fset, in, nil, parser.ParseComments)
	if err != nil {
		panic(err)
	}
	base := strings.TrimSuffix(filepath.Base(in), ".go")
	n := 0
	var instrBlock func(fn string, list []ast.Stmt) []ast.Stmt
	mk := func(fn string, s ast.Stmt) ast.Stmt {
		n++
		var buf bytes.Buffer
		format.Node(&buf, fset, s)
		line := strings.SplitN(buf.String(), "\n", 2)[0]
		if len(line) > 40 {
			line = line[:40]
		}
		site := fmt.Sprintf("%s.%s#%d:%s", base, fn, n, line)
		return &ast.ExprStmt{X: &ast.CallExpr{Fun: &ast.SelectorExpr{X: ast.NewIdent("verifrt"), Sel: ast.NewIdent("P")}, Args: []ast.Expr{&ast.BasicLit{Kind: token.STRING, Value: fmt.Sprintf("%q", site)}}}}
	}
	isLockCall := func(s ast.Stmt, names ...string) bool {
		var call *ast.CallExpr
		switch x := s.(type) {
		case *ast.ExprStmt:
			call, _ = x.X.(*ast.CallExpr)
		case *ast.DeferStmt:
			call = x.Call
		}
		if call == nil {
			return false
		}
		sel, ok := call.Fun.(*ast.SelectorExpr)
		if !ok {
			return false
		}
		for _, nm := range names {
			if sel.Sel.Name == nm {
				return true
			}
		}
		return false
	}
	var walkInner func(fn string, s ast.Stmt)
	instrBlock = func(fn string, list []ast.Stmt) []ast.Stmt {
		var res []ast.Stmt
		locked := 0
		// an Unlock without a preceding Lock in this statement list releases a lock that was taken elsewhere (e.g. inside a
		// closure called earlier): every statement in front of it runs with that lock held and gets no yield point
		heldUntil := -1
		depth := 0
		for i, s := range list {
			if _, isDefer := s.(*ast.DeferStmt); isDefer {
				continue
			}
			if isLockCall(s, "Lock", "RLock") {
				depth++
			} else if isLockCall(s, "Unlock", "RUnlock") {
				if depth > 0 {
					depth--
				} else {
					heldUntil = i
				}
			}
		}
		for si, s := range list {
			if si < heldUntil {
				res = append(res, s)
				continue
			}
			isUnlock := false
			if isLockCall(s, "Unlock", "RUnlock") {
				if _, isDefer := s.(*ast.DeferStmt); !isDefer {
					isUnlock = true // never put a yield point in front of the Unlock itself: the lock is still held
				}
			}
			if isUnlock {
				res = append(res, s)
				if locked > 0 {
					locked--
				}
				continue
			}
			if locked == 0 {
				if ls, ok := s.(*ast.LabeledStmt); ok {
					inner := ls.Stmt
					ls.Stmt = mk(fn, inner)
					res = append(res, ls)
					walkInner(fn, inner)
					res = append(res, inner)
					continue
				}
				res = append(res, mk(fn, s))
				walkInner(fn, s)
			}
			res = append(res, s)
			if isLockCall(s, "Lock", "RLock") {
				locked++
			}
		}
		return res
	}
	walkInner = func(fn string, s ast.Stmt) {
		switch x := s.(type) {
		case *ast.BlockStmt:
			x.List = instrBlock(fn, x.List)
		case *ast.IfStmt:
			x.Body.List = instrBlock(fn, x.Body.List)
			if x.Else != nil {
				walkInner(fn, x.Else)
			}
		case *ast.ForStmt:
			x.Body.List = instrBlock(fn, x.Body.List)
		case *ast.RangeStmt:
			x.Body.List = instrBlock(fn, x.Body.List)
		case *ast.SwitchStmt:
			for _, c := range x.Body.List {
				cc := c.(*ast.CaseClause)
				cc.Body = instrBlock(fn, cc.Body)
			}
		case *ast.TypeSwitchStmt:
			for _, c := range x.Body.List {
				cc := c.(*ast.CaseClause)
				cc.Body = instrBlock(fn, cc.Body)
			}
		case *ast.SelectStmt:
			for _, c := range x.Body.List {
				cc := c.(*ast.CommClause)
				cc.Body = instrBlock(fn, cc.Body)
			}
		}
	}
	for _, d := range f.Decls {
		fd, ok := d.(*ast.FuncDecl)
		if !ok || fd.Body == nil {
			continue
		}
		fd.Body.List = instrBlock(fd.Name.Name, fd.Body.List)
	}
	// add import
	imp := &ast.GenDecl{Tok: token.IMPORT, Specs: []ast.Spec{&ast.ImportSpec{Path: &ast.BasicLit{Kind: token.STRING, Value: `"github.com/kercylan98/vivid/internal/verifrt"`}}}}
	f.Decls = append([]ast.Decl{imp}, f.Decls...)
	var buf bytes.Buffer
	if err := format.Node(&buf, fset, f); err != nil {
		panic(err)
	}
	if err := os.WriteFile(out, buf.Bytes(), 0o644); err != nil {
		panic(err)
	}
	fmt.Println(n)
}
