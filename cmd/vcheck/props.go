package main

import "time"

const (
	sec = time.Second
	min = time.Minute
)

var commonAssumptions = []string{
	"verdicts cover only the executions produced by this run (runtime monitoring, not proof)",
	"harness code is compiled into vivid's packages by a build overlay; /repo itself is not modified",
	"Go 1.26 toolchain, testing/synctest virtual clock where stated",
}

func with(a ...string) []string { return append(a, commonAssumptions...) }

// notClaimed lists properties without a registered check yet (id, reason). Entries whose id is in
// props() are ignored, so this list can stay complete.
func notClaimed() [][2]string {
	wip := "check not built yet in this session (work in progress, see DESIGN.md §7 build order); the technique applies"
	ids := []string{"C01", "C02", "C03", "C04", "C05", "C06", "C07", "C08", "C09", "C10", "C11", "C12", "C13", "C14", "C15", "C16", "C17", "C18", "C19", "C20"}
	var out [][2]string
	for _, id := range ids {
		out = append(out, [2]string{id, wip})
	}
	return out
}

func props() []prop {
	return []prop{
		{
			ID: "C18", Level: "exploration",
			LevelText:   "Fixpoint monitor over a deterministic virtual-time simulation that drives 2..7 real NodeActor instances (the production gossip / join / failure-detection code) through a mock ActorContext: simulated network (per-pair FIFO, PRNG cross-pair order, latency, loss, partitions), simulated scheduler timers, messages through the real cluster codec. 1 500 (thorough 60 000) PRNG-generated scenarios over join orders, seed configurations (incl. self-seeded islands), option sweeps and fault phases (crash, restart with same / fresh id before / after removal, graceful Leave, partitions, one-way cuts, loss, delay; fault durations aimed below the detection timeout, inside the suspicion window and beyond removal). A second unit runs real systems over loopback TCP through the public API only, one shard with join / Leave / restart / late joiner / double stop, one shard in which the leader lives in a child process that is killed with SIGKILL and restarted after and before its removal. Bounded-progress restatement: after the last fault + 3 x (timeout + confirm) + 20 intervals of virtual time, for a window of 2 x (timeout + confirm): every running node holds exactly the running nodes (newest incarnation, Up), one common leader, exactly one self-leader, no membership / leader announcements.",
			LevelNote:   "Unbounded 'eventually' is not decidable by a finite run: the bound above is a logical bound in virtual time. The simulated Tell drops instantly where the real one blocks (D15), multi-DC options are not swept, and the real remoting stack is not in the loop (that is C11/C14/C15).",
			Technique:   "runtime monitoring of the real NodeActor code under a deterministic fault-injecting simulator (virtual time), fixpoint + event-stream monitor",
			DesignRef:   "DESIGN.md §2.8, §4 C18",
			Assumptions: with("virtual time (testing/synctest); global math/rand pinned per scenario for replay"),
			Units: []unit{
				{Check: "gossipsim", Pkg: "internal/cluster", Shards: [2]int{16, 16}, Timeout: [2]time.Duration{10 * min, 60 * min}, CrashKey: "c18-crash", OnlyKinds: []string{"c18-", "harness-"}},
				{Check: "gossipreal", Pkg: "internal/cluster", Shards: [2]int{2, 2}, Timeout: [2]time.Duration{10 * min, 10 * min}, CrashKey: "c18-crash", OnlyKinds: []string{"c18-", "harness-"}},
			},
		},
		{
			ID: "C15", Level: "exploration",
			LevelText:   "Differential runtime monitor on two real systems connected over loopback TCP: every scenario of the operation matrix (Tell, tell-back, Ask x {reply, none, twice, error, custom, user-codec}, Kill x {system, poison}, Ping, PipeTo / Future.PipeTo x {success, timeout, error} to a local and a remote forwarder, Watch / double Watch / two watchers / Unwatch, scheduler Once / Loop+Cancel, payloads incl. a registered message without any field) x {ActorContext, ActorSystem} x {no user codec, user codec} is executed with a local and with a remote target; every participant's observation log (contents, senders with address check, OnKill/OnKilled fields, PipeResult, outcomes, final liveness) must be equal role by role.",
			LevelNote:   "The oracle is the local run of the same scenario (no hand-written expectation), so a behaviour that is equally wrong locally and remotely is not reported here (the local semantics are C03-C09). Real time is used only to wait for quiescence of the logs; timeouts inside scenarios (700 ms Ask) are far above loopback latency, and a difference must reproduce in a second run to be reported.",
			Technique:   "differential monitoring (local run vs remote run of the same scenario on real systems), observation logs compared offline",
			DesignRef:   "DESIGN.md §4 C15",
			Assumptions: with("loopback TCP; one user codec (binary-safe)"),
			Units: []unit{
				{Check: "transparency", Pkg: "internal/actor", Shards: [2]int{8, 8}, Timeout: [2]time.Duration{10 * min, 20 * min}, CrashKey: "c15-crash", OnlyKinds: []string{"c15-", "harness-"}},
			},
		},
		{
			ID: "C14", Level: "fault_enumeration",
			LevelText:   "Connection faults are enumerated against real systems on loopback: the proxy cuts the stream after exactly k bytes for every 8th (thorough: every) byte offset of a handshake + 5-frame stream x reconnect limits, then heals; connections refused for the whole retry budget; a raw client injects undecodable / truncated / unknown-name / oversize / zero-length frames in front of valid frames on one connection; an unframeable 5 MiB payload between normal messages; peer stop and restart on the same address; a peer that accepts and never answers (thorough). Deciding monitors: subsequence/CRC monitor at the receiving behaviour, recovery monitor (after the first delivery over the healed link nothing is lost any more), dead-letter ledger on the sender, and a goroutine-stack witness (a logical observation, no timing) for 'Tell blocks its caller in the reconnect loop'.",
			LevelNote:   "Trusted: loopback TCP; the first write after a peer-side close can be accepted by the kernel and lost (TCP semantics): the recovery clause therefore starts at the first post-heal delivery. Bounded-progress restatement of 'later messages are delivered': within 12 sends 15 ms apart.",
			Technique:   "fault enumeration (cut at every byte offset, refuse, inject, restart) with offline monitors over recorded deliveries, dead letters and goroutine stacks",
			DesignRef:   "DESIGN.md §4 C14",
			Assumptions: with("loopback only; blackhole (handshake never answered) runs into the 10 s handshake deadline and is not in the quick tier"),
			Units: []unit{
				{Check: "remotefaults", Pkg: "internal/actor", Shards: [2]int{8, 16}, Timeout: [2]time.Duration{10 * min, 60 * min}, CrashKey: "c14-crash", OnlyKinds: []string{"c14-", "harness-"}},
			},
		},
		{
			ID: "C11", Level: "exploration",
			LevelText:   "Two real actor systems talk over loopback TCP through an in-harness proxy that never drops a byte but re-segments the stream in four ways (as is, 1-byte writes, PRNG splits, coalescing), i.e. it varies exactly what kernel timing otherwise decides: how frames are split over reads. Every message carries (sender, sequence number, CRC); the monitor at the receiving behaviours decides exactly-once / order / integrity from the sequence numbers (a gap is a loss only when a later message of that sender arrived), Ask replies must carry the asker's id, observers on both systems must see no decode failure and no dead letter for a valid message; bursts with messages that cannot be put on the wire in the middle (the valid ones around them still arrive, the others are dead-lettered on the sender); concurrent first contact; Tell ... Tell; Stop.",
			LevelNote:   "Trusted: loopback TCP only (no kernel-level reordering, no TLS); the final 'tail' clause waits until nothing moved for 5 s and is skipped (inconclusive) when the stall detector saw the scheduler starve for > 1 s.",
			Technique:   "sequence/checksum monitor over recorded deliveries under an adversarial (never-dropping) stream re-segmentation proxy",
			DesignRef:   "DESIGN.md §4 C11",
			Assumptions: with("the proxy never drops or reorders bytes; the link stays up"),
			Units: []unit{
				{Check: "remotestream", Pkg: "internal/actor", Instr: []string{"internal/remoting/mailbox_central.go"}, Shards: [2]int{6, 8}, Timeout: [2]time.Duration{8 * min, 40 * min}, CrashKey: "c11-crash", OnlyKinds: []string{"c11-", "harness-"}},
			},
		},
		{
			ID: "C13", Level: "fault_enumeration",
			LevelText:   "Fault enumeration over the wire formats: for valid encodings of every registered type (three forms), version vectors, the handshake and primitive shapes (incl. slices whose elements take zero bytes on the wire), EVERY truncation, EVERY single-byte corruption (4 substitutions) and EVERY 4-byte window replaced by hostile lengths is fed to the real decoders, plus fixed/PRNG hostile strings and frames up to the 4 MiB limit; on the encode side one value of every unsupported reflect.Kind and malformed messages. Sentinels around each single-threaded call decide: panic, allocation out of proportion (runtime/metrics delta), time, caller's value modified by a failed Read, unsupported value encoded silently; cases run in child processes (8 GiB address-space limit) that journal every case before it starts, so a stack overflow, out-of-memory death or hang is attributed to its input and the enumeration continues after it.",
			LevelNote:   "Trusted: the allocation bound 16 MiB + 64 x len(input) is set by the code's own caps (a map pre-sized for the permitted 65 536 entries costs about 3 MiB); allocation attribution is exact because calls are single-threaded. Inputs derive from generated valid encodings, not from a grammar of all byte strings.",
			Technique:   "fault enumeration (truncation / corruption / hostile length at every offset) with sentinel monitors in journaled child processes",
			DesignRef:   "DESIGN.md §4 C13",
			Assumptions: with("a binary-safe user Codec stands in for application messages"),
			Units: []unit{
				{Check: "codechostile", Pkg: "internal/actor", Shards: [2]int{8, 16}, Timeout: [2]time.Duration{10 * min, 60 * min}, CrashKey: "c13-crash", OnlyKinds: []string{"c13-", "harness-"}},
			},
		},
		{
			ID: "C12", Level: "exploration",
			LevelText:   "decode(encode(x)) is compared with x (canonical form; nil == empty, time by instant, refs by address|path, errors by code+message) for reflection-generated values of every type in the wire registry, which is enumerated at run time through an overlaid export so that newly registered messages are picked up; message layer (WriteMessage/ReadMessage incl. nested registered and user-codec messages), envelope layer (system flag, nil/local/remote sender and receiver) and primitive layer (struct/slice/array shapes over all kinds Writer.Write and Reader.Read both support); the reader position must equal the number of bytes written. Failing decodes (truncated earlier encodings) and encodes that fail inside the Writer happen between valid envelope round trips (readers and writers are pooled), and a race-detector unit (codecrace) runs the envelope round trip from 16 goroutines at once. A registered type for which no value can be generated makes the run inconclusive instead of being skipped.",
			LevelNote:   "Trusted: the canonical-form function and the generators. Domain notes (not stricter than the codec's contract): int fields that the writers narrow to int32 are generated within int32; PongMessage.Ping == nil and pointer-typed struct fields are C13's business (must be an error, not a round trip).",
			Technique:   "differential round-trip oracle over generated inputs of every registered type (registry enumerated at run time)",
			DesignRef:   "DESIGN.md §4 C12",
			Assumptions: with("a user Codec (JSON) stands in for application messages"),
			Units: []unit{
				{Check: "codecrt", Pkg: "internal/actor", Shards: [2]int{8, 16}, Timeout: [2]time.Duration{6 * min, 40 * min}, CrashKey: "c12-crash", OnlyKinds: []string{"c12-", "harness-"}},
				{Check: "codecrace", Pkg: "internal/actor", Race: true, Shards: [2]int{1, 1}, Timeout: [2]time.Duration{6 * min, 30 * min}, CrashKey: "c12-crash", OnlyKinds: []string{"c12-", "harness-", "data-race"}},
			},
		},
		{
			ID: "C10", Level: "exploration",
			LevelText:   "Free-running hammer under the Go race detector on all cores: many goroutines call exactly the API documented as concurrency-safe while actors spawn from their handlers, fail under every decision and die; one child process per batch so that a process-fatal error (concurrent map access) is attributed; the deciding monitors are the race detector's reports whose stacks contain vivid code (de-duplicated by the pair of innermost vivid frames), the crash sentinel, and the tree-consistency invariant (registry == set reachable from the root through children) sampled at quiescence; a third of the batches concentrates on the event stream, a third on futures (every future is closed / awaited / piped by 3-8 goroutines released together while replies and a timeout race; yield points inserted into future.go run in a lock-free fuzz mode so that they add no happens-before edges; all observations of one future must agree). The race detector additionally runs in the futures and event-stream units.",
			LevelNote:   "Trusted: the race detector only reports races that occur in the batch; a silent run is not race-freedom. ActorContext.ActorOf is documented as not concurrency-safe and is only called from the owning handler.",
			Technique:   "race detector + crash sentinel + hooked-state invariant under a concurrent stress workload",
			DesignRef:   "DESIGN.md §4 C10",
			Assumptions: with("only the API documented as concurrency-safe is called from foreign goroutines"),
			Units: []unit{
				{Check: "hammer", Pkg: "internal/actor", Race: true, Instr: []string{"internal/future/future.go", "internal/actor/system.go", "internal/actor/event_stream.go"}, Shards: [2]int{6, 8}, Timeout: [2]time.Duration{8 * min, 40 * min}, CrashKey: "c10-crash", HangKind: "c10-hang", OnlyKinds: []string{"c10-", "data-race", "harness-"}},
{Check: "hammerfast", Pkg: "internal/actor", Instr: []string{"internal/future/future.go", "internal/actor/system.go", "internal/actor/event_stream.go"}, Shards: [2]int{6, 8}, Timeout: [2]time.Duration{8 * min, 40 * min}, CrashKey: "c10-crash", HangKind: "c10-hang", OnlyKinds: []string{"c10-", "data-race", "harness-"}},
			},
		},
		{
			ID: "C07", Level: "exploration",
			LevelText:   "All sequential call sequences of length <= 4 over {Start, Stop, Stop(t), context cancel} and PRNG scenarios with groups of concurrent calls are executed on real systems (populated with trees in awkward states: restart in progress, paused supervisor, stash content, zombie, an actor held in a handler) inside a synctest bubble. The recorded call/return/result history must be linearizable (porcupine) w.r.t. the ready->started->stopped reference machine; every call must return within its timeout of virtual time (rejections in zero time); after a successful Stop or a cancel nothing may be registered; synctest reports any goroutine of the system left blocked when the scenario ends. An inject tier puts a maximal delay at one statement of Start/stop so that the other calls land inside it. An enumerated unit (oddnames) spawns actors under 25 unusual names (dot segments, slashes, escapes, colons, a sibling's name ...) from the system and from an actor and requires a refusal or a path strictly below the parent, then a clean Stop. A real-time unit repeats Start/Stop with remoting between two systems (incl. Stop during outbound retries with a timeout far below the retry budget) and polls the goroutine profile for frames of vivid/go-quartz.",
			LevelNote:   "Trusted: porcupine, synctest (virtual-time bounds are exact; leftover goroutines are reported by the runtime), the goroutine-profile parser of the real-time unit (bounded polling, stall-gated).",
			Technique:   "linearizability check of recorded call histories against a reference state machine + virtual-time bounds + goroutine-leak monitor",
			DesignRef:   "DESIGN.md §4 C07",
			Assumptions: with("cancelling the system context before Start is not asserted beyond 'no hang'"),
			Units: []unit{
				{Check: "startstopnet", Pkg: "internal/actor", Shards: [2]int{7, 7}, Timeout: [2]time.Duration{10 * min, 40 * min}, CrashKey: "c07-crash", HangKind: "c07-hang", OnlyKinds: []string{"c07-", "harness-"}},
				{Check: "startstop", Pkg: "internal/actor", Shards: [2]int{8, 16}, Timeout: [2]time.Duration{6 * min, 40 * min}, CrashKey: "c07-crash", HangKind: "c07-hang", OnlyKinds: []string{"c07-", "harness-"}},
				{Check: "oddnames", Pkg: "internal/actor", Shards: [2]int{8, 8}, Timeout: [2]time.Duration{6 * min, 10 * min}, CrashKey: "c07-crash", HangKind: "c07-hang", OnlyKinds: []string{"c07-", "harness-"}},
				{Check: "startstopinject", Pkg: "internal/actor", Instr: []string{"internal/actor/system.go"}, Shards: [2]int{8, 16}, Timeout: [2]time.Duration{6 * min, 40 * min}, CrashKey: "c07-crash", HangKind: "c07-hang", OnlyKinds: []string{"c07-", "harness-"}},
			},
		},
		{
			ID: "C04", Level: "exploration",
			LevelText:   "PRNG scenarios of concurrent Asks, scripted responders, timeouts, Close, PipeTo and asker death run on the real futures in a synctest bubble, where 'not before the timeout', 'no later than the first due completion' and 'never completed' are exact; observers in 1-8 goroutines record (value, error, virtual instant); the oracle requires agreement of all observers (one-shot), the future's own first reply, completion at the earliest due candidate with the matching outcome, exactly one PipeResult per forwarder equal to Result(), and an empty future registry afterwards (hooked state). 15 % of the scenarios are kill races (old outstanding Asks, a volley of immediately answered Asks and the Kill at one instant). A second unit repeats the scenarios under the race detector (completion vs PipeTo vs timer), a third injects maximal delays at chosen statements.",
			LevelNote:   "Trusted: synctest clock and quiescence; candidate instants are taken at the API boundary (ask processed, reply sent, kill/Close issued). Entrust futures get the one-shot check only through Context.Entrust users (not generated).",
			Technique:   "history oracle over recorded completions under an exact virtual clock + hooked-state registry invariant + race detector",
			DesignRef:   "DESIGN.md §4 C04",
			Assumptions: with("ties of several completion causes at one virtual instant are accepted either way"),
			Units: []unit{
				{Check: "futures", Pkg: "internal/actor", Shards: [2]int{8, 16}, Timeout: [2]time.Duration{6 * min, 40 * min}, CrashKey: "c04-crash", HangKind: "c04-hang", OnlyKinds: []string{"c04-", "harness-"}},
				{Check: "futuresinject", Pkg: "internal/actor", Instr: []string{"internal/actor/context.go", "internal/actor/system.go", "internal/future/future.go"}, Shards: [2]int{8, 16}, Timeout: [2]time.Duration{6 * min, 40 * min}, CrashKey: "c04-crash", HangKind: "c04-hang", OnlyKinds: []string{"c04-", "harness-"}},
				{Check: "futuresrace", Pkg: "internal/actor", Race: true, Instr: []string{"internal/actor/context.go", "internal/actor/system.go", "internal/future/future.go"}, Shards: [2]int{4, 16}, Timeout: [2]time.Duration{8 * min, 40 * min}, CrashKey: "c04-crash", HangKind: "c04-hang", OnlyKinds: []string{"c04-", "harness-", "data-race"}},
			},
		},
		{
			ID: "C19", Level: "exploration",
			LevelText:   "Recorded histories of Subscribe/Unsubscribe/UnsubscribeAll/Publish (call and return stamps from one logical clock at the API boundary, unique event ids) with subscribers terminating and restarting, issued from racing goroutines on the real event stream in a synctest bubble, are checked per event type by porcupine against the sequential model 'set of subscribers' - which decides 'to exactly the current subscribers', 'no effect of a double subscribe' and 'not after Unsubscribe returned / termination' - plus exactly-once and per-publisher order ledgers and a hooked-state invariant on both subscriber tables at quiescence; a second unit repeats the histories under the race detector.",
			LevelNote:   "Trusted: porcupine v1.3.0, the 10-line model, synctest quiescence for 'recipients(e)' (processed or dead-lettered). UnsubscribeAll contributes one op per type over the same interval (sound weakening).",
			Technique:   "linearizability checking of recorded histories (porcupine) + exactly-once/ordering ledger + table invariant at quiescence + race detector",
			DesignRef:   "DESIGN.md §4 C19",
			Assumptions: with("recipients(e) = actors that processed e or had e dead-lettered"),
			Units: []unit{
				{Check: "eventstream", Pkg: "internal/actor", Instr: []string{"internal/actor/killed_handler.go"}, Shards: [2]int{8, 16}, Timeout: [2]time.Duration{6 * min, 40 * min}, CrashKey: "c19-crash", OnlyKinds: []string{"c19-", "harness-"}},
				{Check: "eventstreamrace", Pkg: "internal/actor", Race: true, Instr: []string{"internal/actor/event_stream.go"}, Shards: [2]int{4, 16}, Timeout: [2]time.Duration{8 * min, 40 * min}, CrashKey: "c19-crash", OnlyKinds: []string{"c19-", "harness-", "data-race"}},
			},
		},
		{
			ID: "C20", Level: "exploration",
			LevelText:   "Exact reference-model comparison in virtual time: PRNG programs of Once/Loop/Cron/Cancel/Clear/Kill/fail-and-restart (incl. cancellations aimed at firing instants and malformed cron expressions) run on the real scheduler stack (vivid Scheduler -> go-quartz -> mailbox) inside a synctest bubble whose clock is exact; every delivery (and dead letter) of a scheduled message is recorded with its virtual instant and compared with the model: required firings exactly once, nothing early, nothing at/after cancel, clear, owner termination or restart (a tie at the same instant is accepted either way), parse errors for invalid cron, not-found for unknown cancel, original message value, through the mailbox (handler overlap monitor). A second, enumerated unit (schedtwins) lets two actors whose identities are easy to confuse (same name under different parents, anonymous, parent and child, name prefix, ':' and '::' in names and references) schedule under the same reference and requires each job to fire exactly as its own history dictates whatever happens to the other.",
			LevelNote:   "Trusted: the 60-line reference model, synctest's clock, the fixed pool of cron expressions go-quartz itself rejects. Re-using a live reference on the same actor is unspecified and not generated. go-quartz's 100 ms 'outdated job' rule needs real scheduler stalls and cannot occur in virtual time.",
			Technique:   "reference-model comparison of recorded delivery instants under an exact virtual clock",
			DesignRef:   "DESIGN.md §4 C20",
			Assumptions: with("ties between a firing instant and a cancelling action at the same virtual instant are accepted either way"),
			Units: []unit{
				{Check: "scheduler", Pkg: "internal/actor", Shards: [2]int{8, 16}, Timeout: [2]time.Duration{6 * min, 40 * min}, CrashKey: "c20-crash", OnlyKinds: []string{"c20-", "harness-"}},
				{Check: "schedtwins", Pkg: "internal/actor", Shards: [2]int{8, 8}, Timeout: [2]time.Duration{6 * min, 10 * min}, CrashKey: "c20-crash", HangKind: "c20-hang", OnlyKinds: []string{"c20-", "harness-"}},
			},
		},
		{
			ID: "C05", Level: "exploration",
			LevelText:   "A per-actor trace automaton (OnLaunch first in every incarnation, no second OnLaunch, OnKill before the own OnKilled, nothing after the own OnKilled unless a restart follows, OnLaunch sent by the parent to the restarted actor itself, behaviour stack reset, fresh instance with a provider, OnLaunch count == spawns + restarts, silent instance when ActorOf failed) runs over the complete recorded traces of restart-centred PRNG histories, the general histories and both enumerated supervision matrices, all executed on the real system in synctest bubbles. An enumerated unit (combinators) repeats the spawn / restart clauses for actors assembled with the library's own constructors (NewPrelaunchActor, NewPreRestartActor, NewRestartedActor, NewComplexCombinationActor over 1-3 parts) with the failing hook in every part.",
			LevelNote:   "Trusted: recording behaviours (every message an actor's behaviour sees is logged with instance id and behaviour tag), synctest quiescence. The register->OnLaunch window of ActorOf (a message sent through a parsed ref overtaking OnLaunch) needs a preemption inside ActorOf and is only reachable by the inject tier, see DESIGN §3 D23.",
			Technique:   "online-recorded per-actor traces checked offline by a trace automaton",
			DesignRef:   "DESIGN.md §4 C05",
			Assumptions: with("hooks (Prelaunch/PreRestart/Restarted) are not messages"),
			Units: []unit{
				{Check: "launchwindow", Pkg: "internal/actor", Instr: []string{"internal/actor/context.go"}, Shards: [2]int{4, 16}, Timeout: [2]time.Duration{6 * min, 20 * min}, CrashKey: "c05-crash", HangKind: "c09-hang", OnlyKinds: []string{"c05-", "harness-"}},
				{Check: "lifecycle", Pkg: "internal/actor", Shards: [2]int{8, 16}, Timeout: [2]time.Duration{6 * min, 40 * min}, CrashKey: "c05-crash", OnlyKinds: []string{"c05-", "harness-"}},
				{Check: "combinators", Pkg: "internal/actor", Shards: [2]int{8, 8}, Timeout: [2]time.Duration{5 * min, 10 * min}, CrashKey: "c05-crash", OnlyKinds: []string{"c05-", "harness-"}},
				{Check: "histories", Pkg: "internal/actor", Shards: [2]int{8, 16}, Timeout: [2]time.Duration{6 * min, 40 * min}, OnlyKinds: []string{"c05-"}},
				{Check: "supmatrix", Pkg: "internal/actor", Shards: [2]int{8, 16}, Timeout: [2]time.Duration{5 * min, 30 * min}, OnlyKinds: []string{"c05-"}},
				{Check: "unstuck", Pkg: "internal/actor", Shards: [2]int{8, 16}, Timeout: [2]time.Duration{5 * min, 30 * min}, OnlyKinds: []string{"c05-"}},
			},
		},
		{
			ID: "C06", Level: "exploration",
			LevelText:   "Kill-centred PRNG histories on trees of up to 20 actors (any node, poison/immediate, repeated and concurrent kills at one virtual instant, kills racing spawns in the victim, watchers registered before/at/after the kill, every actor holding subscriptions and Loop jobs) run on the real system in synctest bubbles; offline monitors over the single observer's event order and the per-actor traces require: descendants reported terminated before ancestors, exactly one ActorKilledEvent per termination, exactly one OnKilled at the parent and at each registered watcher, none elsewhere; at quiescence terminated paths are gone from the registry, FindActor, both event-stream tables, their jobs stay silent for 3 intervals of virtual time, and the name can be spawned again. A real-network unit (watchnet) puts watchers on three systems - under the same path on each and under distinct paths - and requires exactly one OnKilled naming the target at every watcher whose Watch is in force, none elsewhere.",
			LevelNote:   "Trusted: the observer's mailbox order equals Publish order for events published by one actor; stamps of unrelated observers are never compared. Virtual time makes 'no later firing' exact.",
			Technique:   "offline ordering / exactly-once checkers over recorded event logs + hooked-state release checks at quiescence",
			DesignRef:   "DESIGN.md §4 C06",
			Assumptions: with("ActorKilledEvent order is taken at one observer actor"),
			Units: []unit{
				{Check: "killtree", Pkg: "internal/actor", Shards: [2]int{8, 16}, Timeout: [2]time.Duration{6 * min, 40 * min}, CrashKey: "c06-crash", OnlyKinds: []string{"c06-", "tree-", "harness-"}},
				{Check: "histories", Pkg: "internal/actor", Shards: [2]int{8, 16}, Timeout: [2]time.Duration{6 * min, 40 * min}, OnlyKinds: []string{"c06-", "tree-"}},
				{Check: "watchnet", Pkg: "internal/actor", Shards: [2]int{8, 8}, Timeout: [2]time.Duration{8 * min, 10 * min}, CrashKey: "c06-crash", OnlyKinds: []string{"c06-", "harness-"}},
			},
		},
		{
			ID: "C03", Level: "exploration",
			LevelText:   "Conservation ledger over recorded runs of the real system in a synctest bubble: every user message id sent through System.Tell/ActorContext.Tell is matched at the bubble's exact quiescence against {processed by the target's behaviour, sitting in a stash, published once as DeathLetterEvent}; PRNG histories vary target state (running, killing, stopped while paused, restarting, terminated, never existed) and reference provenance (ActorOf value, Clone, ParseRef, FindActor) with sends racing transitions at one virtual instant; the enumerated supervision matrices add the stopped-while-paused and restart cases systematically; a post-Stop phase checks that late sends cause no further work; former zombies are probed after their release (by Kill or by the parent's termination) through all three reference provenances.",
			LevelNote:   "Trusted: synctest quiescence as the 'never delivered' oracle; the zombie exception is applied as documented. Remote targets belong to C14, system messages are not in the ledger.",
			Technique:   "offline conservation / exactly-once checker over recorded event logs at a quiescence oracle",
			DesignRef:   "DESIGN.md §4 C03",
			Assumptions: with("a message that stashed itself counts as processed at the Stash call"),
			Units: []unit{
				{Check: "histories", Pkg: "internal/actor", Shards: [2]int{8, 16}, Timeout: [2]time.Duration{6 * min, 40 * min}, CrashKey: "c03-crash", OnlyKinds: []string{"c03-", "harness-"}},
				{Check: "supmatrix", Pkg: "internal/actor", Shards: [2]int{8, 16}, Timeout: [2]time.Duration{5 * min, 30 * min}, OnlyKinds: []string{"c03-"}},
				{Check: "unstuck", Pkg: "internal/actor", Shards: [2]int{8, 16}, Timeout: [2]time.Duration{5 * min, 30 * min}, OnlyKinds: []string{"c03-"}},
				{Check: "stashmodel", Pkg: "internal/actor", Shards: [2]int{8, 16}, Timeout: [2]time.Duration{5 * min, 30 * min}, OnlyKinds: []string{"c03-"}},
				{Check: "mailboxsched", Pkg: "internal/mailbox", Instr: []string{"internal/mailbox/unbounded_mailbox.go"}, Shards: [2]int{8, 16}, Timeout: [2]time.Duration{5 * min, 40 * min}, OnlyKinds: []string{"lost-message", "lost-wakeup", "duplicate-delivery"}},
			},
		},
		{
			ID: "C09", Level: "exploration",
			LevelText:   "Enumerated failure cells (queued bursts with the failure at every position, every decision and strategy, escalation chains to the top, failing restart hooks) plus PRNG histories of repeated and concurrent sibling failures are executed on the real system in a synctest bubble. At the bubble's exact quiescence the monitors require: no registered non-zombie actor paused or half-stopped, probes sent afterwards processed by survivors and dead-lettered for the dead, mail queued behind the failing message delivered in order (immediate) or drained first (graceful), zombies run no user code, publish no termination, and are released by Kill (also for actors assembled with the library's combinators, with the failing restart hook in every part); a cell that cannot reach quiescence or whose Stop never returns is a hang.",
			LevelNote:   "Trusted: synctest quiescence (Wait returns only when every goroutine of the bubble is durably blocked), the reference model of expected fates, the 60 s real-time watchdog per cell (cells normally take milliseconds).",
			Technique:   "enumerated fault matrix + PRNG fault sequences on the real system in virtual time; probe-after-quiescence and paused/zombie invariants on hooked state",
			DesignRef:   "DESIGN.md §4 C09",
			Assumptions: with("liveness is restated as: reaches quiescence and answers a probe sent after quiescence"),
			Units: []unit{
				{Check: "unstuck", Pkg: "internal/actor", Shards: [2]int{8, 16}, Timeout: [2]time.Duration{5 * min, 30 * min}, CrashKey: "c09-crash", HangKind: "c09-hang", OnlyKinds: []string{"c09-", "harness-"}},
				{Check: "combinators", Pkg: "internal/actor", Shards: [2]int{8, 8}, Timeout: [2]time.Duration{5 * min, 10 * min}, CrashKey: "c09-crash", HangKind: "c09-hang", OnlyKinds: []string{"c09-"}},
				{Check: "supmatrix", Pkg: "internal/actor", Shards: [2]int{8, 16}, Timeout: [2]time.Duration{5 * min, 30 * min}, CrashKey: "c09-crash", HangKind: "c09-hang", OnlyKinds: []string{"c09-"}},
				{Check: "histories", Pkg: "internal/actor", Shards: [2]int{8, 16}, Timeout: [2]time.Duration{6 * min, 40 * min}, CrashKey: "c09-crash", HangKind: "c09-hang", OnlyKinds: []string{"c09-"}},
			},
		},
		{
			ID: "C08", Level: "exploration",
			LevelText:   "The full supervision matrix is enumerated (shapes x failure sites x panic/Failed x strategies x decisions, Escalate cells expanded through levels 2 and 3 up to the system default; 48 cells in which a sibling of the failing actor was killed and re-created under its name beforehand; 48 cells in which the restarted incarnation fails again in OnLaunch and the supervisor takes a virtual millisecond over its second decision - until it has decided, the failed incarnation handles nothing) and every cell is executed on the real actor system inside a synctest bubble, whose Wait() is an exact quiescence oracle; the observed per-actor traces, events and registry are compared with an executable reference model of which actors are targets and what each directive does to them (decision-maker call count, restart/stop/resume effect, untouched siblings, failing message handled once).",
			LevelNote:   "Trusted: the reference model in c08_supmatrix_test.go (vfModel), synctest quiescence. A user-supplied *system* strategy that escalates at the root is outside the stated quantifier and not generated.",
			Technique:   "enumerated fault matrix on the real system in virtual time, reference-model comparison of recorded traces",
			DesignRef:   "DESIGN.md §4 C08",
			Assumptions: with("every recording actor re-spawns its children from OnLaunch (so a restarted actor's subtree is re-created)"),
			Units: []unit{
				{Check: "supmatrix", Pkg: "internal/actor", Shards: [2]int{8, 16}, Timeout: [2]time.Duration{5 * min, 30 * min}, CrashKey: "c08-crash", OnlyKinds: []string{"c08-", "harness-"}},
			},
		},
		{
			ID: "C01", Level: "exploration",
			LevelText:   "The real UnboundedMailbox is executed under (1) serialized random schedules at statement granularity (every statement of unbounded_mailbox.go is a yield point inserted at check time; synctest virtual time guarantees exactly one goroutine runs between two points, so each case is a deterministic, replayable interleaving; delays are bursty with a stall class, programs may start from a sequentially prepared state such as an already paused mailbox; about 10^5 distinct interleavings per quick run) and (2) free-running stress on all cores under the race detector. Monitors: in-flight handler counter (<=1), exactly-once ledger, quiescent-state invariant (idle && no system mail && (no user mail || paused)), pause rule, idle-step budget (spin). The M-overlap monitor additionally runs in every actor-level check.",
			LevelNote:   "Trusted: vinstr (syntax-driven insertion of yield calls), synctest's scheduling guarantee, sequential consistency at statement granularity in the serialized tier (weaker memory effects only in the stress tier). User-supplied Mailbox implementations are out of scope.",
			Technique:   "controlled-schedule exploration of the real code with online invariant monitors + race detector stress",
			DesignRef:   "DESIGN.md §4 C01",
			Assumptions: with("interleavings are explored at statement granularity under sequential consistency in the serialized tier"),
			Units: []unit{
				{Check: "mailboxsched", Pkg: "internal/mailbox", Instr: []string{"internal/mailbox/unbounded_mailbox.go"}, Shards: [2]int{8, 16}, Timeout: [2]time.Duration{5 * min, 40 * min}, CrashKey: "crash", HangKind: "hang", SkipKinds: []string{"prio-", "order-"}},
				{Check: "histories", Pkg: "internal/actor", Shards: [2]int{8, 16}, Timeout: [2]time.Duration{6 * min, 40 * min}, OnlyKinds: []string{"c01-"}},
				{Check: "mailboxstress", Pkg: "internal/mailbox", Race: true, Instr: []string{"internal/mailbox/unbounded_mailbox.go"}, Shards: [2]int{4, 16}, Timeout: [2]time.Duration{8 * min, 40 * min}, CrashKey: "crash", HangKind: "hang", SkipKinds: []string{"prio-", "order-"}},
			},
		},
		{
			ID: "C02", Level: "exploration",
			LevelText:   "Reference-FIFO lock-step comparison of the real RingQueue over an exhaustive grid of (initial size, head offset, burst) covering every growth boundary at every wrap position plus long PRNG walks; porcupine linearizability check of free-running MPSC histories under the race detector; per-sender sequence monitor, system-before-user rule, kill-ordering gates and a sequential stash reference model on the real actor runtime in virtual time.",
			LevelNote:   "Trusted: slice FIFO reference, porcupine v1.3.0, the 25-line stash model. Two concurrent Pops are never generated (the mailbox has a single consumer by construction, C01).",
			Technique:   "reference-model comparison + linearizability checking of recorded histories (porcupine) + ordering monitors over recorded traces",
			DesignRef:   "DESIGN.md §4 C02",
			Assumptions: with("one consumer per queue (guaranteed by the mailbox's idle/processing election, checked under C01)"),
			Units: []unit{
				{Check: "ringref", Pkg: "internal/queues", Timeout: [2]time.Duration{3 * min, 20 * min}},
				{Check: "ringlin", Pkg: "internal/queues", Race: true, Shards: [2]int{4, 16}, Timeout: [2]time.Duration{5 * min, 30 * min}, CrashKey: "crash"},
				{Check: "mailboxsched", Pkg: "internal/mailbox", Instr: []string{"internal/mailbox/unbounded_mailbox.go"}, Shards: [2]int{8, 16}, Timeout: [2]time.Duration{5 * min, 40 * min}, OnlyKinds: []string{"prio-", "order-"}},
				{Check: "orderactor", Pkg: "internal/actor", Shards: [2]int{8, 16}, Timeout: [2]time.Duration{5 * min, 20 * min}, OnlyKinds: []string{"order-", "harness-"}},
				{Check: "stashmodel", Pkg: "internal/actor", Shards: [2]int{8, 16}, Timeout: [2]time.Duration{5 * min, 30 * min}, OnlyKinds: []string{"order-", "harness-"}},
				{Check: "ringfifo", Pkg: "internal/queues", Race: true, Shards: [2]int{4, 8}, Timeout: [2]time.Duration{5 * min, 30 * min}, CrashKey: "crash"},
			},
		},
		{
			ID: "C17", Level: "exploration",
			LevelText:   "Merge-law oracle (commutative / associative / idempotent w.r.t. member->(generation,logical clock); union; newest incarnation; no removal; no regression; epoch and members' vector entries never lowered; changed flag; inputs untouched; stored states are clones) evaluated on results of the real MergeFromWithOptions/AddMember/Snapshot over a pool of views generated only through the API calls the node itself makes; all ordered pairs of the pool x 3 strategies x 3 clock-skew settings, PRNG triples x 6 orders x 2 associations.",
			LevelNote:   "Trusted: the generator mirrors NodeActor's use of the view API (IncrementVersion only for the owning member, generation and logical clock bumped together on restart); states with LogicalClock==0 (legacy marker never produced by the current API) are outside the domain.",
			Technique:   "runtime law oracle over API-reachable states (pairs exhaustive over a generated pool, triples sampled)",
			DesignRef:   "DESIGN.md §4 C17",
			Assumptions: with("views are generated through the public view API in the way NodeActor uses it", "membership equality is member -> (generation, logical clock), as the property states"),
			Units: []unit{{
				Check: "viewlaws", Pkg: "internal/cluster",
				Shards: [2]int{4, 16}, Timeout: [2]time.Duration{3 * min, 30 * min},
			}},
		},
		{
			ID: "C16", Level: "exploration",
			LevelText:   "Algebraic-law oracle evaluated by the real VersionVector methods over an exhaustively enumerated small domain (3 ids x {absent,0,1,2,MAX-1,MAX}: every vector, every ordered pair; every triple in the thorough tier) plus PRNG vectors over up to 12 ids, cross-checked against an independent entry-wise model. Exhaustive on that domain, sampled beyond it; the laws are finite-instance checkable, so this is the right level for a pure data type.",
			LevelNote:   "Trusted: the 20-line entry-wise model (missing entry == 0) and the harness. Domain restricted to counters <= maxCounterValue, which is all the API can produce.",
			Technique:   "runtime law oracle over enumerated + random inputs (reference-model comparison)",
			DesignRef:   "DESIGN.md §4 C16",
			Assumptions: with("vectors are built over counters <= maxCounterValue (the API cannot produce larger ones)"),
			Units: []unit{{
				Check: "vvlaws", Pkg: "internal/cluster",
				Shards: [2]int{4, 16}, Timeout: [2]time.Duration{3 * min, 20 * min},
			}},
		},
	}
}
