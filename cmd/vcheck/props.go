package main

import "time"

const (
	sec = time.Second
	min = time.Minute
)

var commonAssumptions = []string{
	"verdicts cover only the executions produced by this run (runtime monitoring, not proof)",
	"harness code is compiled into vivid's packages by a build overlay; /repo itself is not modified",
	"Go 1.26 toolchain, testing/synctest virtual clock where stated",
}

func with(a ...string) []string { return append(a, commonAssumptions...) }

// notClaimed lists properties without a registered check yet (id, reason). Entries whose id is in
// props() are ignored, so this list can stay complete.
func notClaimed() [][2]string {
	wip := "check not built yet in this session (work in progress, see DESIGN.md §7 build order); the technique applies"
	ids := []string{"C01", "C02", "C03", "C04", "C05", "C06", "C07", "C08", "C09", "C10", "C11", "C12", "C13", "C14", "C15", "C16", "C17", "C18", "C19", "C20"}
	var out [][2]string
	for _, id := range ids {
		out = append(out, [2]string{id, wip})
	}
	return out
}

func props() []prop {
	return []prop{
		{
			ID: "C16", Level: "exploration",
			LevelText:   "Algebraic-law oracle evaluated by the real VersionVector methods over an exhaustively enumerated small domain (3 ids x {absent,0,1,2,MAX-1,MAX}: every vector, every ordered pair; every triple in the thorough tier) plus PRNG vectors over up to 12 ids, cross-checked against an independent entry-wise model. Exhaustive on that domain, sampled beyond it; the laws are finite-instance checkable, so this is the right level for a pure data type.",
			LevelNote:   "Trusted: the 20-line entry-wise model (missing entry == 0) and the harness. Domain restricted to counters <= maxCounterValue, which is all the API can produce.",
			Technique:   "runtime law oracle over enumerated + random inputs (reference-model comparison)",
			DesignRef:   "DESIGN.md §4 C16",
			Assumptions: with("vectors are built over counters <= maxCounterValue (the API cannot produce larger ones)"),
			Units: []unit{{
				Check: "vvlaws", Pkg: "internal/cluster",
				Shards: [2]int{4, 16}, Timeout: [2]time.Duration{3 * min, 20 * min},
			}},
		},
	}
}
