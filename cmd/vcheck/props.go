package main

import "time"

const (
	sec = time.Second
	min = time.Minute
)

var commonAssumptions = []string{
	"verdicts cover only the executions produced by this run (runtime monitoring, not proof)",
	"harness code is compiled into vivid's packages by a build overlay; /repo itself is not modified",
	"Go 1.26 toolchain, testing/synctest virtual clock where stated",
}

func with(a ...string) []string { return append(a, commonAssumptions...) }

// notClaimed lists properties without a registered check yet (id, reason). Entries whose id is in
// props() are ignored, so this list can stay complete.
func notClaimed() [][2]string {
	wip := "check not built yet in this session (work in progress, see DESIGN.md §7 build order); the technique applies"
	ids := []string{"C01", "C02", "C03", "C04", "C05", "C06", "C07", "C08", "C09", "C10", "C11", "C12", "C13", "C14", "C15", "C16", "C17", "C18", "C19", "C20"}
	var out [][2]string
	for _, id := range ids {
		out = append(out, [2]string{id, wip})
	}
	return out
}

func props() []prop {
	return []prop{
		{
			ID: "C02", Level: "exploration",
			LevelText:   "Reference-FIFO lock-step comparison of the real RingQueue over an exhaustive grid of (initial size, head offset, burst) covering every growth boundary at every wrap position plus long PRNG walks; porcupine linearizability check of free-running MPSC histories under the race detector; per-sender sequence monitor, system-before-user rule, kill-ordering gates and a sequential stash reference model on the real actor runtime in virtual time.",
			LevelNote:   "Trusted: slice FIFO reference, porcupine v1.3.0, the 25-line stash model. Two concurrent Pops are never generated (the mailbox has a single consumer by construction, C01).",
			Technique:   "reference-model comparison + linearizability checking of recorded histories (porcupine) + ordering monitors over recorded traces",
			DesignRef:   "DESIGN.md §4 C02",
			Assumptions: with("one consumer per queue (guaranteed by the mailbox's idle/processing election, checked under C01)"),
			Units: []unit{
				{Check: "ringref", Pkg: "internal/queues", Timeout: [2]time.Duration{3 * min, 20 * min}},
				{Check: "ringlin", Pkg: "internal/queues", Race: true, Shards: [2]int{4, 16}, Timeout: [2]time.Duration{5 * min, 30 * min}, CrashKey: "crash"},
				{Check: "ringfifo", Pkg: "internal/queues", Race: true, Shards: [2]int{4, 8}, Timeout: [2]time.Duration{5 * min, 30 * min}, CrashKey: "crash"},
			},
		},
		{
			ID: "C17", Level: "exploration",
			LevelText:   "Merge-law oracle (commutative / associative / idempotent w.r.t. member->(generation,logical clock); union; newest incarnation; no removal; no regression; epoch and members' vector entries never lowered; changed flag; inputs untouched; stored states are clones) evaluated on results of the real MergeFromWithOptions/AddMember/Snapshot over a pool of views generated only through the API calls the node itself makes; all ordered pairs of the pool x 3 strategies x 3 clock-skew settings, PRNG triples x 6 orders x 2 associations.",
			LevelNote:   "Trusted: the generator mirrors NodeActor's use of the view API (IncrementVersion only for the owning member, generation and logical clock bumped together on restart); states with LogicalClock==0 (legacy marker never produced by the current API) are outside the domain.",
			Technique:   "runtime law oracle over API-reachable states (pairs exhaustive over a generated pool, triples sampled)",
			DesignRef:   "DESIGN.md §4 C17",
			Assumptions: with("views are generated through the public view API in the way NodeActor uses it", "membership equality is member -> (generation, logical clock), as the property states"),
			Units: []unit{{
				Check: "viewlaws", Pkg: "internal/cluster",
				Shards: [2]int{4, 16}, Timeout: [2]time.Duration{3 * min, 30 * min},
			}},
		},
		{
			ID: "C16", Level: "exploration",
			LevelText:   "Algebraic-law oracle evaluated by the real VersionVector methods over an exhaustively enumerated small domain (3 ids x {absent,0,1,2,MAX-1,MAX}: every vector, every ordered pair; every triple in the thorough tier) plus PRNG vectors over up to 12 ids, cross-checked against an independent entry-wise model. Exhaustive on that domain, sampled beyond it; the laws are finite-instance checkable, so this is the right level for a pure data type.",
			LevelNote:   "Trusted: the 20-line entry-wise model (missing entry == 0) and the harness. Domain restricted to counters <= maxCounterValue, which is all the API can produce.",
			Technique:   "runtime law oracle over enumerated + random inputs (reference-model comparison)",
			DesignRef:   "DESIGN.md §4 C16",
			Assumptions: with("vectors are built over counters <= maxCounterValue (the API cannot produce larger ones)"),
			Units: []unit{{
				Check: "vvlaws", Pkg: "internal/cluster",
				Shards: [2]int{4, 16}, Timeout: [2]time.Duration{3 * min, 20 * min},
			}},
		},
	}
}
