// vcheck is the driver of the /verif runtime-monitoring checks (see DESIGN.md §2.1).
//
//	vcheck run <Cxx> [--tier quick|thorough]
//	vcheck replay <path>
//	vcheck list
package main

import (
	"bufio"
	"encoding/json"
	"fmt"
	"os"
	"os/exec"
	"path/filepath"
	"regexp"
	"sort"
	"strconv"
	"strings"
	"sync"
	"syscall"
	"time"
)

// repo is the tree under check: /repo, or a scratch worktree of it (VERIF_REPO) when a candidate change is tried out
// without touching /repo (development aid; the registered commands never set it).
var repo = func() string {
	if r := os.Getenv("VERIF_REPO"); r != "" {
		return r
	}
	return "/repo"
}()

var verifDir = "/verif"

type unit struct {
	Check    string   // test function TestVerif_<Check>
	Pkg      string   // repo-relative package dir
	Race     bool     // build and run with the race detector
	Instr    []string // repo-relative source files to instrument with vinstr
	Shards   [2]int   // quick, thorough
	Timeout  [2]time.Duration
	Env      [2]map[string]string
	CrashKey string // non-empty: a child crash in vivid code is a violation with this kind
	HangKind string // non-empty: a test timeout is a violation of this kind (else inconclusive)
	MaxProcs int    // GOMAXPROCS override (0 = default)
	// A test may feed two properties (e.g. the mailbox monitor records C01 and C02 facts). Violation kinds are
	// attributed by prefix: OnlyKinds keeps only matching kinds for this property, SkipKinds drops them.
	OnlyKinds []string
	SkipKinds []string
}

func (u unit) wants(kind string) bool {
	if os.Getenv("VERIF_ALLKINDS") != "" { // debugging aid: show every monitor's verdict regardless of attribution
		return true
	}
	for _, p := range u.SkipKinds {
		if strings.HasPrefix(kind, p) {
			return false
		}
	}
	if len(u.OnlyKinds) == 0 {
		return true
	}
	for _, p := range u.OnlyKinds {
		if strings.HasPrefix(kind, p) {
			return true
		}
	}
	return false
}

type prop struct {
	ID          string
	Level       string
	LevelText   string // what assurance the check gives
	LevelNote   string // trusted base / assumptions of the level
	Technique   string
	DesignRef   string
	Assumptions []string
	Units       []unit
}

func tierIdx(t string) int {
	if t == "thorough" {
		return 1
	}
	return 0
}

type violation struct {
	Kind   string `json:"kind"`
	Key    string `json:"key"`
	Detail string `json:"detail"`
	Case   int    `json:"case"`
	Replay any    `json:"replay,omitempty"`
	Check  string `json:"check"`
}

type report struct {
	Check        string           `json:"check"`
	Shard        int              `json:"shard"`
	Evaluations  int64            `json:"evaluations"`
	Distinct     int64            `json:"distinct_nontrivial"`
	Rule         string           `json:"rule"`
	Samples      []any            `json:"samples"`
	Observed     map[string]int64 `json:"observed"`
	Violations   []violation      `json:"violations"`
	ViolCount    map[string]int64 `json:"violation_counts"`
	Inconclusive []string         `json:"inconclusive"`
	Notes        []string         `json:"notes"`
	Exhaustive   bool             `json:"exhaustive"`
	WallS        float64          `json:"wall_s"`
	Complete     bool             `json:"complete"`
}

type finding struct {
	status, prop, kind, key, rest string
}

func main() {
	if v := os.Getenv("VERIF_DIR"); v != "" {
		verifDir = v
	}
	if len(os.Args) < 2 {
		usage()
	}
	switch os.Args[1] {
	case "list":
		for _, p := range props() {
			fmt.Println(p.ID)
		}
	case "manifest":
		writeManifest()
	case "run":
		if len(os.Args) < 3 {
			usage()
		}
		tier := os.Getenv("VERIF_TIER")
		only := ""
		caseIdx := ""
		for i := 3; i < len(os.Args); i++ {
			switch os.Args[i] {
			case "--tier":
				i++
				tier = os.Args[i]
			case "--unit":
				i++
				only = os.Args[i]
			case "--case":
				i++
				caseIdx = os.Args[i]
			}
		}
		if tier != "thorough" {
			tier = "quick"
		}
		os.Exit(run(os.Args[2], tier, only, caseIdx))
	case "replay":
		if len(os.Args) < 3 {
			usage()
		}
		b, err := os.ReadFile(os.Args[2])
		if err != nil {
			fmt.Println("ERROR", err)
			os.Exit(2)
		}
		var r struct {
			Property string `json:"property"`
			Check    string `json:"check"`
			Tier     string `json:"tier"`
			Seed     int64  `json:"seed"`
			Case     int    `json:"case"`
		}
		if err := json.Unmarshal(b, &r); err != nil {
			fmt.Println("ERROR", err)
			os.Exit(2)
		}
		os.Setenv("VERIF_SEED", strconv.FormatInt(r.Seed, 10))
		os.Setenv("VERIF_NO_EVIDENCE", "1")
		os.Exit(run(r.Property, r.Tier, r.Check, strconv.Itoa(r.Case)))
	default:
		usage()
	}
}

func usage() {
	fmt.Println("usage: vcheck run <Cxx> [--tier quick|thorough] [--unit <check>] [--case <n>] | replay <path> | list")
	os.Exit(2)
}

func goTool() string {
	if v := os.Getenv("VERIF_GO"); v != "" {
		return v
	}
	cands := []string{
		"/root/go/pkg/mod/golang.org/toolchain@v0.0.1-go1.26.0.linux-amd64/bin/go",
		"/opt/veriftools/go1.26/bin/go",
		"/opt/veriftools/go1.26.8/bin/go",
	}
	for _, c := range cands {
		if st, err := os.Stat(c); err == nil && !st.IsDir() {
			return c
		}
	}
	if p, err := exec.LookPath("go1.26"); err == nil {
		return p
	}
	return "go"
}

func goEnv(extra ...string) []string {
	env := []string{}
	for _, e := range os.Environ() {
		k := strings.SplitN(e, "=", 2)[0]
		switch k {
		case "GOFLAGS", "GOPROXY", "GOSUMDB", "GOTOOLCHAIN", "GOWORK":
			continue
		}
		env = append(env, e)
	}
	env = append(env, "GOFLAGS=-mod=mod", "GOPROXY=off", "GOSUMDB=off", "GOTOOLCHAIN=local", "GOWORK=off")
	return append(env, extra...)
}

func scratchDir() (string, error) {
	base := os.Getenv("VERIF_SCRATCH")
	if base == "" {
		base = "/var/tmp"
		if st, err := os.Stat("/dev/shm"); err == nil && st.IsDir() {
			base = "/dev/shm"
		}
	}
	return os.MkdirTemp(base, "vcheck-")
}

// overlay builds the overlay JSON + alt modfile for one unit.
func overlay(scratch string, u unit) (ovPath, modPath string, nsites int, err error) {
	repl := map[string]string{}
	hroot := filepath.Join(verifDir, "harness")
	err = filepath.Walk(hroot, func(p string, info os.FileInfo, e error) error {
		if e != nil {
			return e
		}
		if info.IsDir() || !strings.HasSuffix(p, ".go") {
			return nil
		}
		rel, _ := filepath.Rel(hroot, p)
		dir, file := filepath.Split(rel)
		repl[filepath.Join(repo, dir, "zz_verif_"+file)] = p
		return nil
	})
	if err != nil {
		return
	}
	for i, f := range u.Instr {
		src := filepath.Join(repo, f)
		dst := filepath.Join(scratch, fmt.Sprintf("instr_%s_%d.go", u.Check, i))
		out, e := exec.Command(filepath.Join(verifDir, "bin", "vinstr"), src, dst).CombinedOutput()
		if e != nil {
			err = fmt.Errorf("vinstr %s: %v: %s", f, e, out)
			return
		}
		n, _ := strconv.Atoi(strings.TrimSpace(string(out)))
		nsites += n
		repl[src] = dst
	}
	b, _ := json.Marshal(map[string]any{"Replace": repl})
	ovPath = filepath.Join(scratch, "overlay_"+u.Check+".json")
	if err = os.WriteFile(ovPath, b, 0o644); err != nil {
		return
	}
	modPath = filepath.Join(scratch, "alt.mod")
	if _, e := os.Stat(modPath); e != nil {
		gm, e := os.ReadFile(filepath.Join(repo, "go.mod"))
		if e != nil {
			err = e
			return
		}
		gm = append(gm, []byte("\nrequire github.com/anishathalye/porcupine v1.3.0\n")...)
		if err = os.WriteFile(modPath, gm, 0o644); err != nil {
			return
		}
		gs, _ := os.ReadFile(filepath.Join(repo, "go.sum"))
		ps, _ := os.ReadFile(filepath.Join(verifDir, "harness", "porcupine.sum"))
		gs = append(gs, ps...)
		err = os.WriteFile(filepath.Join(scratch, "alt.sum"), gs, 0o644)
	}
	return
}

var vividFrame = regexp.MustCompile(`github\.com/kercylan98/vivid[^\s(]*\.[A-Za-z_(][^\s]*`)

// classifyCrash looks at a child log for a process-fatal error. Returns kind ("" if none), key, excerpt.
func classifyCrash(log string) (kind, key, excerpt string) {
	idx := -1
	for _, marker := range []string{"fatal error: ", "panic: ", "unexpected signal", "SIGSEGV"} {
		if i := strings.Index(log, marker); i >= 0 && (idx < 0 || i < idx) {
			idx = i
		}
	}
	if idx < 0 {
		return "", "", ""
	}
	tail := log[idx:]
	first := strings.SplitN(tail, "\n", 2)[0]
	if strings.Contains(first, "test timed out") {
		return "timeout", "", clip(tail, 12000)
	}
	// the crashing goroutine is the first stack in the dump: its innermost vivid frame decides whether this is
	// a crash in vivid code (violation) or in the harness itself (error)
	key = "unknown"
	firstStack := tail
	if i := strings.Index(tail, "\ngoroutine "); i >= 0 {
		rest := tail[i+1:]
		if j := strings.Index(rest, "\n\n"); j >= 0 {
			firstStack = rest[:j]
		} else {
			firstStack = rest
		}
	}
	lines := strings.Split(firstStack, "\n")
	for li, ln := range lines {
		m := vividFrame.FindString(ln)
		if m == "" || strings.HasPrefix(strings.TrimSpace(ln), "/") {
			continue
		}
		fileLine := ""
		if li+1 < len(lines) {
			fileLine = lines[li+1]
		}
		harness := strings.Contains(fileLine, "zz_verif_") || strings.Contains(m, "verifrt") || strings.Contains(m, "TestVerif")
		m = strings.TrimPrefix(m, "github.com/kercylan98/vivid/")
		if harness {
			key = "unknown" // crash inside harness code
		} else {
			key = strings.TrimRight(m, "(")
			if i := strings.Index(key, "(0x"); i > 0 { // drop argument values: they differ from run to run
				key = key[:i]
			}
		}
		break
	}
	msg := first
	if len(msg) > 120 {
		msg = msg[:120]
	}
	return "crash", msg + " @ " + key, clip(tail, 12000)
}

func clip(s string, n int) string {
	if len(s) > n {
		return s[:n] + "\n…(clipped)"
	}
	return s
}

var lineNo = regexp.MustCompile(`:\d+ \+0x[0-9a-f]+|:\d+$`)

// parseRaces extracts race reports with a vivid (non-harness) frame; returns map dedupKey -> first report text.
func parseRaces(scratch, prefix string) (map[string]string, int) {
	res := map[string]string{}
	total := 0
	files, _ := filepath.Glob(filepath.Join(scratch, prefix+"*"))
	for _, f := range files {
		b, err := os.ReadFile(f)
		if err != nil {
			continue
		}
		for _, blk := range strings.Split(string(b), "==================") {
			if !strings.Contains(blk, "WARNING: DATA RACE") {
				continue
			}
			total++
			// collect function names of the two access stacks (first two paragraphs)
			paras := strings.Split(strings.TrimSpace(blk), "\n\n")
			var sig []string
			for pi, p := range paras {
				if pi > 1 {
					break
				}
				var fns []string
				for _, ln := range strings.Split(p, "\n") {
					ln = strings.TrimSpace(ln)
					if strings.HasPrefix(ln, "github.com/kercylan98/vivid") {
						fn := strings.SplitN(ln, "(", 2)[0]
						if i := strings.LastIndex(ln, ")"); i > 0 && strings.Contains(ln, ".(*") {
							fn = ln[:strings.LastIndex(ln, "(")]
						}
						fns = append(fns, strings.TrimPrefix(fn, "github.com/kercylan98/vivid/"))
					}
				}
				// keep innermost non-harness vivid frame
				in := ""
				for _, fn := range fns {
					if strings.Contains(fn, "verifrt") || strings.Contains(fn, "TestVerif") || strings.Contains(fn, ".vf") || strings.Contains(fn, ".Vf") {
						continue
					}
					in = fn
					break
				}
				sig = append(sig, in)
			}
			if len(sig) < 2 || (sig[0] == "" && sig[1] == "") {
				res["HARNESS"] = blk
				continue
			}
			sort.Strings(sig)
			k := strings.Join(sig, " <-> ")
			if _, ok := res[k]; !ok {
				res[k] = clip(blk, 8000)
			}
		}
	}
	return res, total
}

func loadFindings() []finding {
	var out []finding
	f, err := os.Open(filepath.Join(verifDir, "known_findings.txt"))
	if err != nil {
		return nil
	}
	defer f.Close()
	sc := bufio.NewScanner(f)
	sc.Buffer(make([]byte, 1<<20), 1<<20)
	re := regexp.MustCompile(`^(open|fixed): property=(\S+) (?:\S+ )?kind=(\S+) key=(.*?) :: (.*)$`)
	for sc.Scan() {
		ln := strings.TrimSpace(sc.Text())
		m := re.FindStringSubmatch(ln)
		if m == nil {
			continue
		}
		out = append(out, finding{status: m[1], prop: m[2], kind: m[3], key: strings.TrimSpace(m[4]), rest: m[5]})
	}
	return out
}

func matchFinding(fs []finding, prop string, v violation) *finding {
	for i := range fs {
		f := &fs[i]
		if f.status != "open" || f.prop != prop || f.kind != v.Kind {
			continue
		}
		if f.key == v.Key || (strings.HasSuffix(f.key, "*") && strings.HasPrefix(v.Key, strings.TrimSuffix(f.key, "*"))) {
			return f
		}
	}
	return nil
}

func run(id, tier, onlyUnit, caseIdx string) int {
	var p *prop
	for _, q := range props() {
		if q.ID == id {
			qq := q
			p = &qq
		}
	}
	if p == nil {
		fmt.Println("ERROR unknown property", id)
		return 2
	}
	t0 := time.Now()
	ti := tierIdx(tier)
	seed := int64(1)
	if v := os.Getenv("VERIF_SEED"); v != "" {
		if n, err := strconv.ParseInt(v, 10, 64); err == nil {
			seed = n
		}
	}
	scratch, err := scratchDir()
	if err != nil {
		fmt.Println("ERROR scratch:", err)
		return 2
	}
	defer os.RemoveAll(scratch)
	gobin := goTool()

	var all []report
	var viols []violation
	var inconcl []string
	var errs []string
	unitInfo := []map[string]any{}

	for _, u := range p.Units {
		if onlyUnit != "" && u.Check != onlyUnit {
			continue
		}
		ov, mod, nsites, err := overlay(scratch, u)
		if err != nil {
			fmt.Println("ERROR overlay:", err)
			return 2
		}
		bin := filepath.Join(scratch, u.Check+".test")
		args := []string{"test", "-c", "-tags", "verif", "-overlay", ov, "-modfile", mod, "-vet=off", "-o", bin}
		if unitRace(u) {
			args = append(args, "-race")
		}
		args = append(args, "./"+u.Pkg)
		cmd := exec.Command(gobin, args...)
		cmd.Dir = repo
		cmd.Env = goEnv()
		tb := time.Now()
		out, err := cmd.CombinedOutput()
		if err != nil {
			fmt.Printf("ERROR build failed for %s (%s):\n%s\n", u.Check, u.Pkg, clip(string(out), 6000))
			return 2
		}
		buildS := time.Since(tb).Seconds()

		shards := u.Shards[ti]
		if shards <= 0 {
			shards = 1
		}
		if caseIdx != "" {
			shards = 1
		}
		to := u.Timeout[ti]
		if to == 0 {
			to = 5 * time.Minute
		}
		outDir := filepath.Join(scratch, "out_"+u.Check)
		os.MkdirAll(outDir, 0o755)
		var wg sync.WaitGroup
		logs := make([]string, shards)
		exits := make([]error, shards)
		for s := 0; s < shards; s++ {
			wg.Add(1)
			go func(s int) {
				defer wg.Done()
				logPath := filepath.Join(outDir, fmt.Sprintf("log.%d.txt", s))
				lf, _ := os.Create(logPath)
				defer lf.Close()
				c := exec.Command(bin, "-test.run", "^TestVerif_"+u.Check+"$", "-test.timeout", to.String(), "-test.v", "-test.count=1")
				c.Dir = filepath.Join(repo, u.Pkg)
				env := goEnv(
					"VERIF_OUT="+outDir, "VERIF_TIER="+tier, "VERIF_SEED="+strconv.FormatInt(seed, 10),
					"VERIF_SHARD="+strconv.Itoa(s), "VERIF_SHARDS="+strconv.Itoa(shards),
					"GOTRACEBACK=all",
				)
				if caseIdx != "" {
					env = append(env, "VERIF_CASE="+caseIdx)
				}
				if unitRace(u) {
					env = append(env, "GORACE=halt_on_error=0 log_path="+filepath.Join(outDir, fmt.Sprintf("race.%d", s)))
				}
				if u.MaxProcs > 0 {
					env = append(env, "GOMAXPROCS="+strconv.Itoa(u.MaxProcs))
				}
				for k, v := range u.Env[ti] {
					env = append(env, k+"="+v)
				}
				c.Env = env
				c.Stdout = lf
				c.Stderr = lf
				c.SysProcAttr = &syscall.SysProcAttr{Setpgid: true}
				if err := c.Start(); err != nil {
					exits[s] = err
					return
				}
				done := make(chan error, 1)
				go func() { done <- c.Wait() }()
				select {
				case e := <-done:
					exits[s] = e
				case <-time.After(to + 60*time.Second):
					syscall.Kill(-c.Process.Pid, syscall.SIGQUIT)
					select {
					case e := <-done:
						exits[s] = e
					case <-time.After(20 * time.Second):
						syscall.Kill(-c.Process.Pid, syscall.SIGKILL)
						exits[s] = <-done
					}
				}
				b, _ := os.ReadFile(logPath)
				logs[s] = string(b)
			}(s)
		}
		wg.Wait()

		ui := map[string]any{"check": u.Check, "pkg": u.Pkg, "race": unitRace(u), "shards": shards, "build_s": round1(buildS), "point_sites": nsites}
		for s := 0; s < shards; s++ {
			var r report
			b, err := os.ReadFile(filepath.Join(outDir, fmt.Sprintf("%s.%d.json", u.Check, s)))
			ok := err == nil && json.Unmarshal(b, &r) == nil && r.Complete
			if ok {
				kept := r.Violations[:0]
				for i := range r.Violations {
					r.Violations[i].Check = u.Check
					if u.wants(r.Violations[i].Kind) {
						kept = append(kept, r.Violations[i])
					}
				}
				r.Violations = kept
				for k := range r.ViolCount {
					if !u.wants(strings.SplitN(k, "|", 2)[0]) {
						delete(r.ViolCount, k)
					}
				}
				all = append(all, r)
				viols = append(viols, r.Violations...)
				for _, ic := range r.Inconclusive {
					inconcl = append(inconcl, u.Check+": "+ic)
				}
			}
			kind, key, excerpt := classifyCrash(logs[s])
			journal, _ := os.ReadFile(filepath.Join(outDir, fmt.Sprintf("%s.%d.journal", u.Check, s)))
			if !ok || kind == "crash" {
				switch {
				case kind == "crash" && u.CrashKey != "" && !strings.HasSuffix(key, "@ unknown"):
					viols = append(viols, violation{Kind: u.CrashKey, Key: key, Detail: "journal: " + strings.TrimSpace(string(journal)) + "\n" + excerpt, Case: -1, Check: u.Check})
				case kind == "timeout" && u.HangKind != "":
					viols = append(viols, violation{Kind: u.HangKind, Key: "test-timeout", Detail: "journal: " + strings.TrimSpace(string(journal)) + "\n" + excerpt, Case: -1, Check: u.Check})
				case kind == "timeout":
					inconcl = append(inconcl, fmt.Sprintf("%s shard %d: watchdog timeout (journal: %s)", u.Check, s, strings.TrimSpace(string(journal))))
					if !ok {
						errs = append(errs, fmt.Sprintf("%s shard %d produced no report (timeout)", u.Check, s))
					}
				default:
					if !ok {
						errs = append(errs, fmt.Sprintf("%s shard %d produced no report (exit=%v):\n%s", u.Check, s, exits[s], clip(tailStr(logs[s], 4000), 4000)))
					} else if kind == "crash" {
						errs = append(errs, fmt.Sprintf("%s shard %d crashed outside vivid code: %s", u.Check, s, key))
					}
				}
			}
		}
		if unitRace(u) {
			races, total := parseRaces(outDir, "race.")
			ui["race_reports_total"] = total
			ui["race_reports_distinct"] = len(races)
			keys := make([]string, 0, len(races))
			for k := range races {
				keys = append(keys, k)
			}
			sort.Strings(keys)
			for _, k := range keys {
				if k == "HARNESS" {
					errs = append(errs, "race report inside harness code only:\n"+races[k])
					continue
				}
				viols = append(viols, violation{Kind: "data-race", Key: k, Detail: races[k], Case: -1, Check: u.Check})
			}
		}
		unitInfo = append(unitInfo, ui)
	}

	// merge
	cov := map[string]any{}
	var evals, distinct int64
	var rules []string
	var samples []any
	observed := map[string]int64{}
	exhaustive := len(all) > 0
	seenRule := map[string]bool{}
	perCheck := map[string]int64{}
	var notes []string
	for _, r := range all {
		evals += r.Evaluations
		distinct += r.Distinct
		perCheck[r.Check] += r.Distinct
		if !seenRule[r.Check] {
			seenRule[r.Check] = true
			rules = append(rules, r.Check+": "+r.Rule)
			for i, s := range r.Samples {
				if i < 3 {
					samples = append(samples, map[string]any{"check": r.Check, "case": s})
				}
			}
			notes = append(notes, r.Notes...)
		}
		for k, v := range r.Observed {
			if strings.HasPrefix(k, "max:") {
				if v > observed[r.Check+"/"+k] {
					observed[r.Check+"/"+k] = v
				}
			} else {
				observed[r.Check+"/"+k] += v
			}
		}
		if !r.Exhaustive {
			exhaustive = false
		}
	}
	cov["evaluations"] = evals
	cov["distinct_nontrivial"] = distinct
	cov["rule"] = strings.Join(rules, " || ")
	cov["samples"] = samples
	cov["observed"] = observed
	cov["units"] = unitInfo
	cov["distinct_per_check"] = perCheck
	if exhaustive {
		cov["exhaustive"] = true
	}
	if len(notes) > 0 {
		cov["notes"] = notes
	}
	if len(inconcl) > 0 {
		cov["inconclusive"] = inconcl
	}

	// verdicts
	fs := loadFindings()
	exit := 0
	known := map[string]int{}
	newViol := 0
	replayDir := filepath.Join(verifDir, "evidence", "replay", id)
	if v := os.Getenv("VERIF_REPLAY_DIR"); v != "" { // development aid (parallel trials against scratch worktrees)
		replayDir = v
	}
	seenV := map[string]bool{}
	var lines []string
	for _, v := range viols {
		if f := matchFinding(fs, id, v); f != nil {
			k := v.Kind + " " + v.Key
			if known[k] == 0 {
				lines = append(lines, fmt.Sprintf("KNOWN-FINDING: property=%s kind=%s key=%s :: %s", id, v.Kind, v.Key, f.rest))
			}
			known[k]++
			continue
		}
		newViol++
		k := v.Check + "|" + v.Kind + "|" + v.Key
		if seenV[k] {
			continue
		}
		seenV[k] = true
		os.MkdirAll(replayDir, 0o755)
		name := fmt.Sprintf("%s-%s-%d.json", v.Check, sanitize(v.Kind+"-"+v.Key), v.Case)
		path := filepath.Join(replayDir, name)
		b, _ := json.MarshalIndent(map[string]any{"property": id, "check": v.Check, "tier": tier, "seed": seed, "case": v.Case, "kind": v.Kind, "key": v.Key, "detail": v.Detail, "replay": v.Replay}, "", " ")
		os.WriteFile(path, b, 0o644)
		lines = append(lines, fmt.Sprintf("VIOLATION property=%s replay=%s", id, path))
		lines = append(lines, fmt.Sprintf("  kind=%s key=%s case=%d check=%s\n  %s", v.Kind, v.Key, v.Case, v.Check, strings.ReplaceAll(clip(v.Detail, 900), "\n", "\n  ")))
		exit = 1
	}
	// violations counted beyond kept witnesses
	for _, r := range all {
		for k, n := range r.ViolCount {
			parts := strings.SplitN(k, "|", 2)
			v := violation{Kind: parts[0], Key: parts[1]}
			if matchFinding(fs, id, v) == nil && n > 3 {
				newViol += int(n) - 3
			}
		}
	}
	for _, ic := range inconcl {
		lines = append(lines, fmt.Sprintf("INCONCLUSIVE property=%s reason=%s", id, strings.ReplaceAll(clip(ic, 300), "\n", " ")))
	}
	if len(errs) > 0 && exit == 0 {
		for _, e := range errs {
			lines = append(lines, "ERROR "+e)
		}
		exit = 2
	}
	if exit == 0 && onlyUnit == "" && caseIdx == "" {
		for _, u := range p.Units {
			if perCheck[u.Check] < 2 {
				lines = append(lines, fmt.Sprintf("ERROR %s observed fewer than 2 distinct non-trivial cases (%d)", u.Check, perCheck[u.Check]))
				exit = 2
			}
		}
	}
	cov["known_findings_hit"] = known

	ev := map[string]any{
		"property_id": id,
		"tier":        tier,
		"seed":        seed,
		"level":       p.Level,
		"coverage":    cov,
		"assumptions": p.Assumptions,
		"wall_s":      round1(time.Since(t0).Seconds()),
		"violations":  newViol,
	}
	if os.Getenv("VERIF_NO_EVIDENCE") == "" && onlyUnit == "" && caseIdx == "" {
		os.MkdirAll(filepath.Join(verifDir, "evidence"), 0o755)
		b, _ := json.MarshalIndent(ev, "", " ")
		if err := os.WriteFile(filepath.Join(verifDir, "evidence", id+".json"), b, 0o644); err != nil {
			fmt.Println("ERROR writing evidence:", err)
			return 2
		}
	}
	for _, l := range lines {
		fmt.Println(l)
	}
	verdict := "HELD"
	if exit == 1 {
		verdict = "VIOLATED"
	} else if exit == 2 {
		verdict = "ERROR"
	}
	fmt.Printf("%s property=%s tier=%s seed=%d evaluations=%d distinct_nontrivial=%d violations=%d known=%d wall=%.1fs\n", verdict, id, tier, seed, evals, distinct, newViol, len(known), time.Since(t0).Seconds())
	return exit
}

func tailStr(s string, n int) string {
	if len(s) > n {
		return s[len(s)-n:]
	}
	return s
}

func round1(f float64) float64 { return float64(int(f*10+0.5)) / 10 }

func sanitize(s string) string {
	var b strings.Builder
	for _, r := range s {
		if (r >= 'a' && r <= 'z') || (r >= 'A' && r <= 'Z') || (r >= '0' && r <= '9') || r == '-' || r == '_' {
			b.WriteRune(r)
		} else {
			b.WriteRune('_')
		}
		if b.Len() > 80 {
			break
		}
	}
	return b.String()
}

// writeManifest regenerates MANIFEST.json from the props table (kept in one place so it stays current).
func writeManifest() {
	type lvl struct {
		Category  string `json:"category"`
		Text      string `json:"text"`
		DesignRef string `json:"design_ref,omitempty"`
	}
	type chk struct {
		PropertyID string `json:"property_id"`
		QuickCmd   string `json:"quick_cmd"`
		Thorough   string `json:"thorough_cmd"`
		Evidence   string `json:"evidence_file"`
		Replay     string `json:"replay_cmd_template"`
		Engine     string `json:"engine"`
		Level      lvl    `json:"level_claimed"`
		Note       string `json:"level_note"`
		Technique  string `json:"technique"`
	}
	var checks []chk
	claimed := map[string]bool{}
	for _, p := range props() {
		claimed[p.ID] = true
		checks = append(checks, chk{
			PropertyID: p.ID,
			QuickCmd:   "./bin/vcheck run " + p.ID + " --tier quick",
			Thorough:   "./bin/vcheck run " + p.ID + " --tier thorough",
			Evidence:   "/verif/evidence/" + p.ID + ".json",
			Replay:     "./bin/vcheck replay {path}",
			Engine:     "vcheck",
			Level:      lvl{Category: p.Level, Text: p.LevelText, DesignRef: p.DesignRef},
			Note:       p.LevelNote,
			Technique:  p.Technique,
		})
	}
	type na struct {
		PropertyID string `json:"property_id"`
		Reason     string `json:"reason"`
	}
	nas := []na{}
	for _, n := range notClaimed() {
		if !claimed[n[0]] {
			nas = append(nas, na{n[0], n[1]})
		}
	}
	m := map[string]any{
		"version":   1,
		"setup_cmd": "./scripts/setup.sh",
		"hooks": map[string]any{
			"guard":            "verif",
			"enable":           "no hook lines live in /repo: the driver compiles the harness (files tagged //go:build verif under /verif/harness) and vinstr-instrumented copies of the current sources into vivid's packages with `go test -tags verif -overlay <generated.json> -modfile <scratch>/alt.mod`",
			"baseline_off_cmd": "cd /repo && GOFLAGS=-mod=mod go test -vet=off -count=1 -timeout 25m ./...",
			"source_commits":   []string{},
			"add_only":         true,
		},
		"engines": []map[string]any{{
			"name": "vcheck", "path": "/verif/cmd/vcheck",
			"serves_properties": func() []string {
				var ids []string
				for _, p := range props() {
					ids = append(ids, p.ID)
				}
				return ids
			}(),
			"kind_free_text": "runtime-monitoring driver: builds overlay harness into /repo's packages, runs child test processes (race detector where stated), folds their reports into evidence, matches known findings",
		}},
		"checks":         checks,
		"not_applicable": nas,
		"notes":          "Runtime monitoring and sanitizers only. Repairs of genuine defects are unguarded `fix:` commits in /repo, listed in /verif/known_findings.txt; open findings are listed there too. See DESIGN.md.",
	}
	b, _ := json.MarshalIndent(m, "", " ")
	if err := os.WriteFile(filepath.Join(verifDir, "MANIFEST.json"), append(b, '\n'), 0o644); err != nil {
		fmt.Println("ERROR", err)
		os.Exit(2)
	}
	fmt.Printf("MANIFEST.json written: %d checks, %d not_applicable\n", len(checks), len(nas))
}

// unitRace: the unit's own setting, or VERIF_FORCE_RACE=1 to run any unit under the race detector (exploration).
func unitRace(u unit) bool { return u.Race || os.Getenv("VERIF_FORCE_RACE") == "1" }
