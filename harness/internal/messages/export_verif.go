//go:build verif

package messages

// Exports for the /verif harness (overlaid at check time, never part of the repository).

// VfRegistry returns the live wire registry: name -> descriptor.
func VfRegistry() map[string]*MessageDesc {
	out := make(map[string]*MessageDesc, len(internalMessageNameOfDesc))
	for k, v := range internalMessageNameOfDesc {
		out[k] = v
	}
	return out
}

// VfRead runs the registered reader of desc on data into a fresh instance.
func VfRead(desc *MessageDesc, data []byte, codec Codec) (any, int, error) {
	r := NewReader(data)
	inst := desc.Instance()
	err := desc.reader(inst, r, codec)
	return inst, r.Pos(), err
}

// VfReadInto runs the registered reader of desc on data into the given instance (failed-decode-leaves-value-untouched probe).
func VfReadInto(desc *MessageDesc, inst any, data []byte, codec Codec) error {
	r := NewReader(data)
	return desc.reader(inst, r, codec)
}

// VfWrite runs the registered writer of desc.
func VfWrite(desc *MessageDesc, msg any, codec Codec) ([]byte, error) {
	w := NewWriter()
	if err := desc.writer(msg, w, codec); err != nil {
		return nil, err
	}
	if w.Err() != nil {
		return nil, w.Err()
	}
	return append([]byte(nil), w.Bytes()...), nil
}
