//go:build verif

package cluster

import (
	"strings"
	"errors"
	"fmt"
	"testing"

	"github.com/kercylan98/vivid/internal/messages"
	"github.com/kercylan98/vivid/internal/verifrt"
)

// C16 — algebraic-law oracle evaluated by the real VersionVector methods (DESIGN §4 C16).

var vfVVIDs = []string{"a", "b", "c"}

func vfVVDomain() []VersionVector {
	vals := []int64{-1, 0, 1, 2, maxCounterValue - 1, maxCounterValue}
	var out []VersionVector
	for _, x := range vals {
		for _, y := range vals {
			for _, z := range vals {
				v := NewVersionVector()
				for i, c := range []int64{x, y, z} {
					if c >= 0 {
						v.m[vfVVIDs[i]] = uint64(c)
					}
				}
				out = append(out, v)
			}
		}
	}
	return out
}

func vfVVRandom(r *verifrt.Rand, ids []string) VersionVector {
	v := NewVersionVector()
	pool := []uint64{0, 1, 2, 3, 7, 1 << 31, 1<<32 - 1, 1 << 32, maxCounterValue - 1, maxCounterValue}
	for _, id := range ids {
		switch r.Intn(4) {
		case 0: // absent
		case 1:
			v.m[id] = pool[r.Intn(len(pool))]
		default:
			v.m[id] = uint64(r.Intn(6))
		}
	}
	return v
}

func vfVVSnap(v VersionVector) string {
	ks := verifrt.SortedKeys(v.m)
	s := ""
	for _, k := range ks {
		s += fmt.Sprintf("%s=%d,", k, v.m[k])
	}
	if v.m == nil {
		s = "<nil>"
	}
	return s
}

func vfUnionIDs(vs ...VersionVector) []string {
	set := map[string]struct{}{}
	for _, v := range vs {
		for k := range v.m {
			set[k] = struct{}{}
		}
	}
	return verifrt.SortedKeys(set)
}

// model: entry-wise comparison, missing == 0
func vfModelCompare(a, b VersionVector) VersionOrder {
	less, greater := false, false
	for _, id := range vfUnionIDs(a, b) {
		x, y := a.m[id], b.m[id]
		if x < y {
			less = true
		} else if x > y {
			greater = true
		}
	}
	switch {
	case less && greater:
		return VersionConcurrent
	case less:
		return VersionBefore
	case greater:
		return VersionAfter
	}
	return VersionEqual
}

func vfLeq(a, b VersionVector) bool {
	o := a.Compare(b)
	return o == VersionEqual || o == VersionBefore
}

type vvChecker struct {
	R   *verifrt.Report
	idx int
}

func (c *vvChecker) bad(kind, key, f string, a ...any) {
	c.R.Violate(c.idx, kind, key, fmt.Sprintf(f, a...), nil)
}

func (c *vvChecker) single(a VersionVector) {
	sa := vfVVSnap(a)
	if a.Compare(a) != VersionEqual {
		c.bad("compare-not-reflexive", "Compare", "a=%s", sa)
	}
	if m := a.Merge(a); m.Compare(a) != VersionEqual {
		c.bad("merge-not-idempotent", "Merge", "a=%s merge=%s", sa, vfVVSnap(m))
	}
	// clone / compact are semantic identities
	if cl := a.Clone(); cl.Compare(a) != VersionEqual || vfModelCompare(cl, a) != VersionEqual {
		c.bad("clone-differs", "Clone", "a=%s clone=%s", sa, vfVVSnap(cl))
	}
	if cp := a.Compact(); vfModelCompare(cp, a) != VersionEqual {
		c.bad("compact-differs", "Compact", "a=%s compact=%s", sa, vfVVSnap(cp))
	}
	// serialisation
	w := messages.NewWriter()
	if err := WriteVersionVector(w, a); err != nil {
		c.bad("serialise-error", "WriteVersionVector", "a=%s err=%v", sa, err)
	} else {
		r := messages.NewReader(w.Bytes())
		b, err := ReadVersionVector(r)
		if err != nil {
			c.bad("serialise-error", "ReadVersionVector", "a=%s err=%v", sa, err)
		} else {
			if vfModelCompare(a, b) != VersionEqual || a.Compare(b) != VersionEqual || b.Compare(a) != VersionEqual {
				c.bad("serialise-changes-vector", "Write/Read", "a=%s back=%s", sa, vfVVSnap(b))
			}
			if r.Pos() != w.Len() {
				c.bad("serialise-position", "Write/Read", "a=%s wrote=%d consumed=%d", sa, w.Len(), r.Pos())
			}
		}
	}
	for _, id := range append(vfUnionIDs(a), "zz-new") {
		n, err := a.Increment(id)
		if vfVVSnap(a) != sa {
			c.bad("operand-modified", "Increment", "a was %s now %s", sa, vfVVSnap(a))
			return
		}
		if err != nil {
			if a.Get(id) < maxCounterValue || !errors.Is(err, ErrVersionOverflow) {
				c.bad("increment-error", "Increment", "a=%s id=%s err=%v", sa, id, err)
			}
			continue
		}
		if a.Get(id) >= maxCounterValue {
			c.bad("increment-overflow-unreported", "Increment", "a=%s id=%s -> %s", sa, id, vfVVSnap(n))
			continue
		}
		if n.Compare(a) != VersionAfter || a.Compare(n) != VersionBefore {
			c.bad("increment-not-after", "Increment", "a=%s id=%s n=%s cmp=%v/%v", sa, id, vfVVSnap(n), n.Compare(a), a.Compare(n))
		}
		if n.Get(id) != a.Get(id)+1 {
			c.bad("increment-wrong-value", "Increment", "a=%s id=%s n=%s", sa, id, vfVVSnap(n))
		}
		for _, o := range vfUnionIDs(a, n) {
			if o != id && n.Get(o) != a.Get(o) {
				c.bad("increment-touches-other", "Increment", "a=%s id=%s n=%s", sa, id, vfVVSnap(n))
			}
		}
	}
	if vfVVSnap(a) != sa {
		c.bad("operand-modified", "single-ops", "a was %s now %s", sa, vfVVSnap(a))
	}
}

func (c *vvChecker) pair(a, b VersionVector) VersionOrder {
	sa, sb := vfVVSnap(a), vfVVSnap(b)
	ab, ba := a.Compare(b), b.Compare(a)
	if want := vfModelCompare(a, b); ab != want {
		c.bad("compare-disagrees-with-model", "Compare", "a=%s b=%s got=%d want=%d", sa, sb, ab, want)
	}
	conv := map[VersionOrder]VersionOrder{VersionEqual: VersionEqual, VersionBefore: VersionAfter, VersionAfter: VersionBefore, VersionConcurrent: VersionConcurrent}
	if conv[ab] != ba {
		c.bad("compare-not-converse", "Compare", "a=%s b=%s ab=%d ba=%d", sa, sb, ab, ba)
	}
	if a.Equal(b) != (ab == VersionEqual) || a.HappensBefore(b) != (ab == VersionBefore) || a.HappensAfter(b) != (ab == VersionAfter) || a.IsConcurrentWith(b) != (ab == VersionConcurrent) {
		c.bad("compare-helpers-disagree", "Equal/HappensBefore/…", "a=%s b=%s", sa, sb)
	}
	m, m2 := a.Merge(b), b.Merge(a)
	if m.Compare(m2) != VersionEqual || vfModelCompare(m, m2) != VersionEqual {
		c.bad("merge-not-commutative", "Merge", "a=%s b=%s ab=%s ba=%s", sa, sb, vfVVSnap(m), vfVVSnap(m2))
	}
	for _, id := range vfUnionIDs(a, b, m) {
		want := a.m[id]
		if b.m[id] > want {
			want = b.m[id]
		}
		if m.Get(id) != want {
			c.bad("merge-not-pointwise-max", "Merge", "a=%s b=%s m=%s id=%s", sa, sb, vfVVSnap(m), id)
			break
		}
	}
	if !vfLeq(a, m) || !vfLeq(b, m) {
		c.bad("merge-not-upper-bound", "Merge", "a=%s b=%s m=%s", sa, sb, vfVVSnap(m))
	}
	if m.Compare(a) == VersionBefore || m.Compare(b) == VersionBefore {
		c.bad("merge-before-argument", "Merge", "a=%s b=%s m=%s", sa, sb, vfVVSnap(m))
	}
	// absorption: a<=b  =>  merge == b
	if vfLeq(a, b) && m.Compare(b) != VersionEqual {
		c.bad("merge-not-least", "Merge", "a<=b but merge!=b: a=%s b=%s m=%s", sa, sb, vfVVSnap(m))
	}
	if vfVVSnap(a) != sa || vfVVSnap(b) != sb {
		c.bad("operand-modified", "Compare/Merge", "a %s->%s b %s->%s", sa, vfVVSnap(a), sb, vfVVSnap(b))
	}
	return ab
}

func (c *vvChecker) triple(a, b, x VersionVector) {
	// transitivity of <=
	if vfLeq(a, b) && vfLeq(b, x) && !vfLeq(a, x) {
		c.bad("compare-not-transitive", "Compare", "a=%s b=%s c=%s", vfVVSnap(a), vfVVSnap(b), vfVVSnap(x))
	}
	// strict transitivity
	if a.Compare(b) == VersionBefore && b.Compare(x) == VersionBefore && a.Compare(x) != VersionBefore {
		c.bad("compare-not-transitive", "Compare(strict)", "a=%s b=%s c=%s", vfVVSnap(a), vfVVSnap(b), vfVVSnap(x))
	}
	l := a.Merge(b).Merge(x)
	r := a.Merge(b.Merge(x))
	if l.Compare(r) != VersionEqual || vfModelCompare(l, r) != VersionEqual {
		c.bad("merge-not-associative", "Merge", "a=%s b=%s c=%s l=%s r=%s", vfVVSnap(a), vfVVSnap(b), vfVVSnap(x), vfVVSnap(l), vfVVSnap(r))
	}
	// least upper bound: x upper bound of a and b => merge(a,b) <= x
	if vfLeq(a, x) && vfLeq(b, x) && !vfLeq(a.Merge(b), x) {
		c.bad("merge-not-least", "Merge", "a=%s b=%s ub=%s m=%s", vfVVSnap(a), vfVVSnap(b), vfVVSnap(x), vfVVSnap(a.Merge(b)))
	}
}

func TestVerif_vvlaws(t *testing.T) {
	R := verifrt.NewReport("vvlaws", "exhaustive domain: ids {a,b,c} x counters {absent,0,1,2,MAX-1,MAX} = 216 vectors, every vector, every ordered pair; triples: all (thorough) or PRNG sample (quick); plus PRNG vectors over <=12 ids, plus ids of 1 .. 256 bytes (the validation's own limit), plus four pairs of large vectors (40 000 - 65 535 ids each, unions beyond the serialisation cap) whose merge is checked entry-wise. non-trivial+distinct = distinct ordered pairs whose Compare result is not Equal, plus distinct PRNG pairs")
	defer R.Flush()
	c := &vvChecker{R: R}
	dom := vfVVDomain()
	sh, nsh := verifrt.Shard()
	orders := map[VersionOrder]int64{}
	for i, a := range dom {
		if i%nsh != sh {
			continue
		}
		c.idx = i
		R.Journal(i, "single/pairs of "+vfVVSnap(a))
		c.single(a)
		R.Eval()
		for j, b := range dom {
			o := c.pair(a, b)
			orders[o]++
			R.Eval()
			if o != VersionEqual {
				R.NontrivialHash(uint64(i)*1000 + uint64(j))
			}
		}
	}
	for o, n := range orders {
		R.Obs(fmt.Sprintf("pairs_order_%d", o), n)
	}
	// triples
	rng := verifrt.NewRand(verifrt.CaseSeed("vvlaws-triples", sh))
	var triples int64
	if verifrt.Thorough() {
		for i, a := range dom {
			if i%nsh != sh {
				continue
			}
			for _, b := range dom {
				for _, x := range dom {
					c.triple(a, b, x)
					triples++
				}
			}
		}
		R.Exhaustive = true
	} else {
		n := verifrt.EnvInt("VERIF_N", 300000) / nsh
		for k := 0; k < n; k++ {
			c.idx = 100000 + k
			c.triple(dom[rng.Intn(len(dom))], dom[rng.Intn(len(dom))], dom[rng.Intn(len(dom))])
			triples++
		}
	}
	R.Obs("triples", triples)
	R.Evaluations += triples
	// PRNG vectors over up to 12 ids
	ids := []string{"n1", "n2", "n3", "n4", "n5", "n6", "n7", "n8", "n9", "n10", "n11", "n12"}
	n := verifrt.EnvInt("VERIF_NR", 20000)
	if verifrt.Thorough() {
		n *= 20
	}
	n /= nsh
	for k := 0; k < n; k++ {
		c.idx = 200000 + k
		k1 := 1 + rng.Intn(len(ids))
		a, b, x := vfVVRandom(rng, ids[:k1]), vfVVRandom(rng, ids[:k1]), vfVVRandom(rng, ids[:k1])
		c.single(a)
		o := c.pair(a, b)
		c.triple(a, b, x)
		R.Eval()
		if o != VersionEqual {
			R.Nontrivial("r:" + vfVVSnap(a) + "|" + vfVVSnap(b))
		}
		if k < 2 {
			R.Sample(map[string]any{"a": vfVVSnap(a), "b": vfVVSnap(b), "c": vfVVSnap(x), "compare_ab": int(o), "merge_ab": vfVVSnap(a.Merge(b))})
		}
	}
	// node ids at the length limits: every id the vector's own validation accepts (1 .. maxNodeAddressLength bytes) must
	// survive all operations and the wire
	if sh == 0 {
		for li, ln := range []int{1, 2, 127, 128, 254, 255, maxNodeAddressLength - 1, maxNodeAddressLength} {
			c.idx = 310000 + li
			id := strings.Repeat("k", ln)
			a := NewVersionVector()
			var err error
			if a, err = a.Increment(id); err != nil {
				c.bad("increment-error", "Increment(long id)", "id of %d bytes: %v", ln, err)
				continue
			}
			b := VfMakeVV(map[string]uint64{"other": 3, id: 7})
			c.single(a)
			c.single(b)
			c.pair(a, b)
			c.pair(b, a)
			R.Eval()
			R.Nontrivial(fmt.Sprintf("idlen:%d", ln))
			R.Obs("id_length_cases", 1)
		}
	}
	// large vectors: entry counts around and beyond the serialisation cap (65 535). The laws do not depend on size: the
	// join of two vectors holds every id of both, whatever their number. Checked entry-wise against the model (snapshots of
	// 10^5 entries are not printed).
	if sh == 0 {
		mkLarge := func(prefix string, from, to int, ctr uint64) VersionVector {
			m := make(map[string]uint64, to-from)
			for i := from; i < to; i++ {
				m[fmt.Sprintf("%s%06d", prefix, i)] = ctr + uint64(i%3)
			}
			return VfMakeVV(m)
		}
		type lc struct {
			name string
			a, b VersionVector
		}
		larges := []lc{
			{"65535 ids + 1 unseen id", mkLarge("n", 0, 65535, 1), mkLarge("x", 0, 1, 5)},
			{"two disjoint sets of 40000 ids", mkLarge("n", 0, 40000, 1), mkLarge("n", 40000, 80000, 2)},
			{"overlapping sets, union 70000 ids", mkLarge("n", 0, 50000, 1), mkLarge("n", 30000, 70000, 4)},
			{"65534 ids + 3 unseen ids", mkLarge("n", 0, 65534, 2), mkLarge("y", 0, 3, 1)},
		}
		for li, l := range larges {
			c.idx = 300000 + li
			R.Journal(c.idx, "large: "+l.name)
			ea, eb := VfVVEntries(l.a), VfVVEntries(l.b)
			want := map[string]uint64{}
			for k, v := range ea {
				want[k] = v
			}
			for k, v := range eb {
				if v > want[k] {
					want[k] = v
				}
			}
			check := func(what string, got VersionVector) {
				eg := VfVVEntries(got)
				missing, wrong := 0, 0
				for k, v := range want {
					if g, ok := eg[k]; !ok {
						missing++
					} else if g != v {
						wrong++
					}
				}
				if missing > 0 || wrong > 0 || len(eg) != len(want) {
					c.bad("merge-not-pointwise-max", "Merge(large)", "%s, %s: the result has %d entries, the join has %d; %d ids of the operands are missing, %d have a wrong counter", l.name, what, len(eg), len(want), missing, wrong)
				}
			}
			ab, ba := l.a.Merge(l.b), l.b.Merge(l.a)
			check("a.Merge(b)", ab)
			check("b.Merge(a)", ba)
			if !ab.Equal(ba) {
				c.bad("merge-not-commutative", "Merge(large)", "%s: a.Merge(b) and b.Merge(a) differ", l.name)
			}
			for _, op := range []struct {
				n string
				v VersionVector
			}{{"a", l.a}, {"b", l.b}} {
				if o := op.v.Compare(ab); o != VersionBefore && o != VersionEqual {
					c.bad("merge-not-upper-bound", "Merge(large)", "%s: operand %s compares %d with the merge result (want Before or Equal)", l.name, op.n, o)
				}
			}
			if len(VfVVEntries(l.a)) != len(ea) || len(VfVVEntries(l.b)) != len(eb) {
				c.bad("operand-mutated", "Merge(large)", "%s: an operand changed size", l.name)
			}
			R.Eval()
			R.Nontrivial("large:" + l.name)
			R.Obs("large_vector_cases", 1)
		}
	}
	R.Sample(map[string]any{"a": vfVVSnap(dom[7]), "b": vfVVSnap(dom[40]), "compare_ab": int(dom[7].Compare(dom[40])), "merge_ab": vfVVSnap(dom[7].Merge(dom[40]))})
	R.ObsMax("max:domain_vectors", int64(len(dom)))
	if R.NViol() > 0 {
		t.Logf("violations: %d", R.NViol())
	}
}
