//go:build verif

package cluster

import (
	"fmt"
	"math/rand"
	"os"
	"sort"
	"strings"
	"sync"
	"testing"
	"testing/synctest"
	"time"

	"github.com/kercylan98/vivid"
	"github.com/kercylan98/vivid/internal/messages"
	"github.com/kercylan98/vivid/internal/verifrt"
	"github.com/kercylan98/vivid/pkg/log"
	"github.com/kercylan98/vivid/pkg/metrics"
	"github.com/kercylan98/vivid/pkg/ves"
)

// C18 — gossip convergence (DESIGN §2.8, §4 C18): N real NodeActor instances are driven through a mock ActorContext by a
// deterministic network/timer simulator inside a synctest bubble (virtual time). Every node runs in its own goroutine
// (an actor: one message at a time); the simulator is the only other goroutine and hands out exactly one event at a time,
// waiting for quiescence (synctest.Wait) before the next, so a scenario replays bit-exactly from its seed.

// ---- refs ---------------------------------------------------------------------------------------------

type vfSimRef struct{ a, p string }

func (r *vfSimRef) GetAddress() string { return r.a }
func (r *vfSimRef) GetPath() string    { return r.p }
func (r *vfSimRef) Equals(o vivid.ActorRef) bool {
	return o != nil && o.GetAddress() == r.a && o.GetPath() == r.p
}
func (r *vfSimRef) Clone() vivid.ActorRef        { return &vfSimRef{r.a, r.p} }
func (r *vfSimRef) ToActorRefs() vivid.ActorRefs { return vivid.ActorRefs{r} }
func (r *vfSimRef) String() string               { return r.a + r.p }

// ---- network ------------------------------------------------------------------------------------------

type vfSimMsg struct {
	from, to string // addresses
	msg      any
	askID    int64 // >0: request of an Ask (reply expected) ; <0: reply to ask -askID
	ready    time.Time
	seq      int64
}

type vfSimEvent struct {
	At   time.Duration
	Node string
	What string
}

type vfSimNet struct {
	mu       sync.Mutex
	rng      *verifrt.Rand
	t0       time.Time
	nodes    map[string]*vfSimNode // current incarnation by address
	all      []*vfSimNode
	flight   []*vfSimMsg
	seq      int64
	askSeq   int64
	loss     int            // percent
	maxDelay time.Duration  // per message latency 1ms..maxDelay
	part     map[string]int // address -> partition id
	cut      map[string]bool // "from>to": messages in that direction are dropped (one-way loss), until heal
	lastPair map[string]time.Time
	events   []vfSimEvent
	sent     map[string]int
	dropped  int
	harness  []string
	total    int
	budget   int
}

func (n *vfSimNet) now() time.Duration { return time.Since(n.t0) }

func (n *vfSimNet) logf(node, f string, a ...any) {
	n.mu.Lock()
	n.events = append(n.events, vfSimEvent{n.now(), node, fmt.Sprintf(f, a...)})
	n.mu.Unlock()
}

func (n *vfSimNet) reachable(a, b string) bool {
	if a == b {
		return true
	}
	return n.part[a] == n.part[b] && !n.cut[a+">"+b]
}

// send puts a message on the simulated wire (called by node goroutines and by the simulator).
func (n *vfSimNet) send(from, to string, msg any, askID int64) {
	// through the real codec, as on the wire (errors are passed as they are: the transport of errors is C15's subject)
	if _, isErr := msg.(error); !isErr && msg != nil {
		w := messages.NewWriter()
		if err := w.WriteMessage(msg, nil); err != nil {
			n.mu.Lock()
			n.harness = append(n.harness, fmt.Sprintf("encode %T: %v", msg, err))
			n.mu.Unlock()
			return
		}
		r := messages.NewReader(append([]byte(nil), w.Bytes()...))
		dec, err := r.ReadMessage(nil)
		if err != nil {
			n.mu.Lock()
			n.harness = append(n.harness, fmt.Sprintf("decode %T: %v", msg, err))
			n.mu.Unlock()
			return
		}
		msg = dec
	}
	n.mu.Lock()
	defer n.mu.Unlock()
	n.sent[fmt.Sprintf("%T", msg)]++
	n.total++
	if n.total == n.budget {
		n.events = append(n.events, vfSimEvent{n.now(), from, fmt.Sprintf("MESSAGE BUDGET of %d exhausted", n.budget)})
	}
	if n.total >= n.budget {
		n.dropped++
		return
	}
	if from != to {
		if !n.reachable(from, to) || (n.loss > 0 && n.rng.Intn(100) < n.loss) {
			n.dropped++
			return
		}
	}
	d := time.Millisecond
	if n.maxDelay > time.Millisecond {
		d += time.Duration(n.rng.Intn(int(n.maxDelay/time.Millisecond))) * time.Millisecond
	}
	ready := time.Now().Add(d)
	// FIFO per ordered pair (one TCP connection per direction)
	pk := from + ">" + to
	if last, ok := n.lastPair[pk]; ok && ready.Before(last) {
		ready = last
	}
	n.lastPair[pk] = ready
	n.seq++
	n.flight = append(n.flight, &vfSimMsg{from: from, to: to, msg: msg, askID: askID, ready: ready, seq: n.seq})
}

// ---- node ---------------------------------------------------------------------------------------------

type vfSimTimer struct {
	interval time.Duration
	next     time.Time
	msg      any
	once     bool
}

type vfSimIn struct {
	msg    any
	sender vivid.ActorRef
	askID  int64
}

type vfSimNode struct {
	net     *vfSimNet
	addr    string
	id      string
	inc     int // incarnation counter of this address (harness side)
	actor   *NodeActor
	ref     vivid.ActorRef
	up      bool
	left    bool
	inbox   chan vfSimIn
	timers  map[string]*vfSimTimer
	pending map[int64]chan any // outstanding asks
	mu      sync.Mutex
	done    chan struct{}
	panicV  any
}

func (nd *vfSimNode) loop() {
	defer close(nd.done)
	defer func() {
		if r := recover(); r != nil {
			nd.panicV = r
		}
	}()
	for in := range nd.inbox {
		ctx := &vfSimCtx{node: nd, msg: in.msg, sender: in.sender, askID: in.askID}
		nd.actor.OnReceive(ctx)
	}
}

// ---- mock ActorContext --------------------------------------------------------------------------------

type vfSimCtx struct {
	vivid.ActorContext // nil: anything the NodeActor uses that is not modelled panics (reported as harness error)
	node               *vfSimNode
	msg                any
	sender             vivid.ActorRef
	askID              int64
}

func (c *vfSimCtx) Message() vivid.Message   { return c.msg }
func (c *vfSimCtx) Sender() vivid.ActorRef   { return c.sender }
func (c *vfSimCtx) Ref() vivid.ActorRef      { return c.node.ref }
func (c *vfSimCtx) Logger() log.Logger       { return log.NewSilentLogger() }
func (c *vfSimCtx) MetricsEnabled() bool     { return false }
func (c *vfSimCtx) Metrics() metrics.Metrics { return nil }
func (c *vfSimCtx) Reply(m vivid.Message) {
	if c.sender == nil {
		return
	}
	if c.askID > 0 {
		if c.node.up {
			c.node.net.send(c.node.addr, c.sender.GetAddress(), m, -c.askID)
		}
		return
	}
	c.Tell(c.sender, m)
}
func (c *vfSimCtx) Tell(to vivid.ActorRef, m vivid.Message) {
	if !c.node.up {
		return // a crashed process sends nothing
	}
	if to.GetPath() != "/@cluster" {
		return // local helper actors (leave waiter): not modelled
	}
	c.node.net.send(c.node.addr, to.GetAddress(), m, 0)
}
func (c *vfSimCtx) TellSelf(m vivid.Message) {
	if c.node.up {
		c.node.net.send(c.node.addr, c.node.addr, m, 0)
	}
}
func (c *vfSimCtx) System() vivid.ActorSystem      { return &vfSimSys{c: c} }
func (c *vfSimCtx) EventStream() vivid.EventStream { return &vfSimES{c} }
func (c *vfSimCtx) Scheduler() vivid.Scheduler     { return &vfSimSched{c} }

type vfSimFuture struct {
	v   any
	err error
}

func (f *vfSimFuture) Close(error)                    {}
func (f *vfSimFuture) Result() (vivid.Message, error) { return f.v, f.err }
func (f *vfSimFuture) Wait() error                    { return f.err }
func (f *vfSimFuture) PipeTo(vivid.ActorRefs) error   { return nil }

// Ask: request and reply are ordinary network messages; the asking node's goroutine blocks (as the real actor does in
// future.Result()) until the reply arrives or the (virtual) timeout fires.
func (c *vfSimCtx) Ask(to vivid.ActorRef, m vivid.Message, timeout ...time.Duration) vivid.Future[vivid.Message] {
	nd := c.node
	net := nd.net
	net.mu.Lock()
	net.askSeq++
	id := net.askSeq
	net.mu.Unlock()
	ch := make(chan any, 1)
	nd.mu.Lock()
	nd.pending[id] = ch
	nd.mu.Unlock()
	if nd.up {
		net.send(nd.addr, to.GetAddress(), m, id)
	}
	d := 5 * time.Second
	if len(timeout) > 0 {
		d = timeout[0]
	}
	tm := time.NewTimer(d)
	defer tm.Stop()
	var f *vfSimFuture
	select {
	case v := <-ch:
		if e, ok := v.(error); ok {
			f = &vfSimFuture{err: e}
		} else {
			f = &vfSimFuture{v: v}
		}
	case <-tm.C:
		f = &vfSimFuture{err: vivid.ErrorFutureTimeout}
	}
	nd.mu.Lock()
	delete(nd.pending, id)
	nd.mu.Unlock()
	return f
}

type vfSimSys struct {
	vivid.ActorSystem
	c *vfSimCtx
}

func (s *vfSimSys) CreateRef(a, p string) (vivid.ActorRef, error) { return &vfSimRef{a, p}, nil }
func (s *vfSimSys) Logger() log.Logger                            { return log.NewSilentLogger() }

type vfSimES struct{ c *vfSimCtx }

func (e *vfSimES) Subscribe(vivid.EventStreamContext, vivid.Message)   {}
func (e *vfSimES) Unsubscribe(vivid.EventStreamContext, vivid.Message) {}
func (e *vfSimES) UnsubscribeAll(vivid.EventStreamContext)             {}
func (e *vfSimES) Publish(_ vivid.EventStreamContext, ev vivid.Message) {
	nd := e.c.node
	switch m := ev.(type) {
	case ves.ClusterMembersChangedEvent:
		var rem []string
		for _, r := range m.Removed {
			rem = append(rem, vfShort(r))
		}
		nd.net.logf(nd.addr, "MEMBERS n=%d +%d -%d%v", len(m.Members), m.AddedNum, m.RemovedNum, rem)
	case ves.ClusterLeaderChangedEvent:
		nd.net.logf(nd.addr, "LEADER %s iam=%v quorum=%v", vfShort(m.LeaderAddr), m.IAmLeader, m.InQuorum)
	case ves.ClusterLeaveCompletedEvent:
		nd.net.logf(nd.addr, "LEFT")
		nd.left = true
	}
}

type vfSimSched struct{ c *vfSimCtx }

func (s *vfSimSched) Cron(vivid.ActorRef, string, vivid.Message, ...vivid.ScheduleOption) error {
	panic("vf: Cron not modelled")
}
func (s *vfSimSched) set(d time.Duration, m vivid.Message, once bool, o []vivid.ScheduleOption) error {
	opts := vivid.NewScheduleOptions(o...)
	nd := s.c.node
	nd.mu.Lock()
	nd.timers[opts.Reference] = &vfSimTimer{interval: d, next: time.Now().Add(d), msg: m, once: once}
	nd.mu.Unlock()
	return nil
}
func (s *vfSimSched) Once(_ vivid.ActorRef, d time.Duration, m vivid.Message, o ...vivid.ScheduleOption) error {
	return s.set(d, m, true, o)
}
func (s *vfSimSched) Loop(_ vivid.ActorRef, d time.Duration, m vivid.Message, o ...vivid.ScheduleOption) error {
	return s.set(d, m, false, o)
}
func (s *vfSimSched) Exists(r string) bool {
	s.c.node.mu.Lock()
	defer s.c.node.mu.Unlock()
	_, ok := s.c.node.timers[r]
	return ok
}
func (s *vfSimSched) Cancel(r string) error {
	nd := s.c.node
	nd.mu.Lock()
	defer nd.mu.Unlock()
	if _, ok := nd.timers[r]; !ok {
		return vivid.ErrorNotFound
	}
	delete(nd.timers, r)
	return nil
}
func (s *vfSimSched) Clear() {
	s.c.node.mu.Lock()
	s.c.node.timers = map[string]*vfSimTimer{}
	s.c.node.mu.Unlock()
}

func vfShort(a string) string {
	if i := strings.LastIndex(a, "."); i >= 0 {
		a = a[i+1:]
	}
	if i := strings.Index(a, ":"); i >= 0 {
		a = a[:i]
	}
	if a == "" {
		return "-"
	}
	return "n" + a
}

// ---- scenario -----------------------------------------------------------------------------------------

type vfSimOpts struct {
	Interval time.Duration
	Timeout  time.Duration
	Confirm  time.Duration
	Targets  int
	Strategy int
}

type vfSimAction struct {
	At   time.Duration
	Op   string // start crash restart restart-newid leave partition heal loss noloss
	Node int    // node index (1-based)
	Arg  int
}

type vfSimScenario struct {
	N         int
	Seeds     map[int][]int // node -> seed node indexes
	Opts      vfSimOpts
	Actions   []vfSimAction
	FaultsEnd time.Duration
	Class     string
}

func vfSimAddr(i int) string { return fmt.Sprintf("10.0.0.%d:7000", i) }

func (sc *vfSimScenario) String() string {
	var sb strings.Builder
	fmt.Fprintf(&sb, "N=%d interval=%v timeout=%v confirm=%v targets=%d strategy=%d seeds=", sc.N, sc.Opts.Interval, sc.Opts.Timeout, sc.Opts.Confirm, sc.Opts.Targets, sc.Opts.Strategy)
	for i := 1; i <= sc.N; i++ {
		fmt.Fprintf(&sb, "n%d:%v ", i, sc.Seeds[i])
	}
	sb.WriteString("| ")
	for _, a := range sc.Actions {
		fmt.Fprintf(&sb, "@%v %s", a.At, a.Op)
		if a.Node > 0 {
			fmt.Fprintf(&sb, " n%d", a.Node)
		}
		if a.Op == "partition" || a.Op == "loss" || a.Op == "delay" {
			fmt.Fprintf(&sb, " %d", a.Arg)
		}
		if a.Op == "cut" {
			fmt.Fprintf(&sb, " n%d>n%d", a.Arg/10, a.Arg%10)
		}
		sb.WriteString(" ; ")
	}
	fmt.Fprintf(&sb, "| faults end @%v", sc.FaultsEnd)
	return sb.String()
}

func (n *vfSimNet) startNode(sc *vfSimScenario, idx int, id string) *vfSimNode {
	addr := vfSimAddr(idx)
	var seeds []string
	for _, s := range sc.Seeds[idx] {
		seeds = append(seeds, vfSimAddr(s))
	}
	opts := vivid.NewClusterOptions(
		vivid.WithClusterNodeID(id),
		vivid.WithClusterSeeds(seeds),
		vivid.WithClusterDiscoveryInterval(sc.Opts.Interval),
		vivid.WithClusterFailureDetectionTimeout(sc.Opts.Timeout),
		vivid.WithClusterSuspectConfirmDuration(sc.Opts.Confirm),
		vivid.WithClusterMaxDiscoveryTargetsPerTick(sc.Opts.Targets),
		vivid.WithClusterVersionConcurrentStrategy(vivid.VersionConcurrentStrategy(sc.Opts.Strategy)),
		vivid.WithClusterJoinAskTimeout(2*time.Second),
		vivid.WithClusterGetViewAskTimeout(2*time.Second),
		// every incarnation at an address carries its own zone label: an entry of an earlier incarnation that shadows a
		// restarted node (same id, same generation and clock) is recognisable by the label it still shows
		vivid.WithClusterZone(vfSimZone(n, addr)),
	)
	nd := &vfSimNode{net: n, addr: addr, id: id, actor: NewNodeActor(addr, *opts), ref: &vfSimRef{addr, "/@cluster"}, up: true,
		inbox: make(chan vfSimIn, 100000), timers: map[string]*vfSimTimer{}, pending: map[int64]chan any{}, done: make(chan struct{})}
	if old := n.nodes[addr]; old != nil {
		nd.inc = old.inc + 1
	}
	n.nodes[addr] = nd
	n.all = append(n.all, nd)
	n.part[addr] = 0
	go nd.loop()
	nd.inbox <- vfSimIn{msg: new(vivid.OnLaunch)}
	n.logf(addr, "START id=%s", id)
	return nd
}

func vfSimZone(n *vfSimNet, addr string) string {
	inc := 0
	if old := n.nodes[addr]; old != nil {
		inc = old.inc + 1
	}
	return fmt.Sprintf("zone-inc%d", inc)
}

func (n *vfSimNet) crash(addr string) {
	if nd := n.nodes[addr]; nd != nil && nd.up {
		nd.up = false
		close(nd.inbox)
		n.logf(addr, "CRASH")
	}
}

// run advances the simulation up to virtual time `until`.
func (n *vfSimNet) run(until time.Duration) {
	deadline := n.t0.Add(until)
	for {
		synctest.Wait()
		now := time.Now()
		// due events: messages and timers, in a PRNG-chosen order among those due at this instant
		type due struct {
			m  *vfSimMsg
			nd *vfSimNode
			tr string
		}
		var ds []due
		n.mu.Lock()
		rest := n.flight[:0]
		for _, m := range n.flight {
			if !m.ready.After(now) {
				ds = append(ds, due{m: m})
			} else {
				rest = append(rest, m)
			}
		}
		n.flight = rest
		n.mu.Unlock()
		addrs := verifrt.SortedKeys(n.nodes)
		for _, a := range addrs {
			nd := n.nodes[a]
			if !nd.up {
				continue
			}
			nd.mu.Lock()
			for _, ref := range verifrt.SortedKeys(nd.timers) {
				if t := nd.timers[ref]; !t.next.After(now) {
					ds = append(ds, due{nd: nd, tr: ref})
				}
			}
			nd.mu.Unlock()
		}
		if len(ds) == 0 {
			// sleep to the next event
			next := deadline
			n.mu.Lock()
			for _, m := range n.flight {
				if m.ready.Before(next) {
					next = m.ready
				}
			}
			n.mu.Unlock()
			for _, a := range addrs {
				nd := n.nodes[a]
				if !nd.up {
					continue
				}
				nd.mu.Lock()
				for _, t := range nd.timers {
					if t.next.Before(next) {
						next = t.next
					}
				}
				nd.mu.Unlock()
			}
			if !now.Before(deadline) {
				return
			}
			d := next.Sub(now)
			if d <= 0 {
				d = time.Millisecond
			}
			// asks in progress wake up on their own timers: never sleep past 50 ms so that they are observed promptly
			if d > 50*time.Millisecond {
				d = 50 * time.Millisecond
			}
			time.Sleep(d)
			continue
		}
		// deliver messages of one pair in order; different pairs and timers in PRNG order
		sort.SliceStable(ds, func(i, j int) bool {
			if ds[i].m != nil && ds[j].m != nil {
				return ds[i].m.seq < ds[j].m.seq
			}
			return ds[i].m != nil && ds[j].m == nil
		})
		// PRNG interleaving that preserves per-pair order: repeatedly pick a random pair / timer
		for len(ds) > 0 {
			k := n.rng.Intn(len(ds))
			// move k back to the first entry of the same pair
			if ds[k].m != nil {
				for j := 0; j < k; j++ {
					if ds[j].m != nil && ds[j].m.from == ds[k].m.from && ds[j].m.to == ds[k].m.to {
						k = j
						break
					}
				}
			}
			d := ds[k]
			ds = append(ds[:k], ds[k+1:]...)
			if d.m != nil {
				n.deliver(d.m)
			} else if d.nd.up {
				d.nd.mu.Lock()
				t, ok := d.nd.timers[d.tr]
				var msg any
				if ok && !t.next.After(now) {
					msg = t.msg
					if t.once {
						delete(d.nd.timers, d.tr)
					} else {
						t.next = t.next.Add(t.interval)
					}
				}
				d.nd.mu.Unlock()
				if msg != nil {
					d.nd.inbox <- vfSimIn{msg: msg, sender: d.nd.ref}
				}
			}
			synctest.Wait()
		}
	}
}

func (n *vfSimNet) deliver(m *vfSimMsg) {
	dst := n.nodes[m.to]
	if dst == nil || !dst.up {
		n.mu.Lock()
		n.dropped++
		n.mu.Unlock()
		return
	}
	if m.askID < 0 {
		dst.mu.Lock()
		ch := dst.pending[-m.askID]
		dst.mu.Unlock()
		if ch != nil {
			select {
			case ch <- m.msg:
			default:
			}
		}
		return
	}
	dst.inbox <- vfSimIn{msg: m.msg, sender: &vfSimRef{m.from, "/@cluster"}, askID: m.askID}
}

// ---- monitor ------------------------------------------------------------------------------------------

type vfSimViol struct{ Kind, Detail string }

func (n *vfSimNet) views() string {
	var sb strings.Builder
	for _, a := range verifrt.SortedKeys(n.nodes) {
		nd := n.nodes[a]
		if !nd.up {
			continue
		}
		var ms []string
		for _, m := range nd.actor.clusterView.Members {
			ms = append(ms, fmt.Sprintf("%s(%s g%d lc%d %s)", vfShort(m.Address), m.ID, m.Generation, m.LogicalClock, m.Status))
		}
		sort.Strings(ms)
		fmt.Fprintf(&sb, "%s[id=%s self=%s]: leader=%s members=%v\n", vfShort(a), nd.id, nd.actor.nodeState.Status, vfShort(ComputeLeaderAddr(nd.actor.clusterView)), ms)
	}
	return sb.String()
}

func (n *vfSimNet) check(sc *vfSimScenario, windowStart time.Duration) (vs []vfSimViol) {
	add := func(kind, f string, a ...any) {
		for _, v := range vs {
			if v.Kind == kind {
				return
			}
		}
		vs = append(vs, vfSimViol{kind, fmt.Sprintf(f, a...)})
	}
	running := map[string]*vfSimNode{}
	for a, nd := range n.nodes {
		if nd.up {
			running[a] = nd
		}
	}
	everCrashedOrLeft := map[string]bool{}
	for _, nd := range n.all {
		if !nd.up {
			everCrashedOrLeft[nd.addr] = true
		}
	}
	leaders := map[string][]string{}
	for _, a := range verifrt.SortedKeys(running) {
		nd := running[a]
		v := nd.actor.clusterView
		have := map[string]*NodeState{}
		for _, m := range v.Members {
			if prev := have[m.Address]; prev != nil {
				add("c18-two-incarnations-in-one-view", "node %s holds two members for address %s (ids %s and %s)", vfShort(a), vfShort(m.Address), prev.ID, m.ID)
			}
			have[m.Address] = m
		}
		for b, other := range running {
			m := have[b]
			if m == nil {
				if everCrashedOrLeft[b] {
					add("c18-restarted-member-missing", "running node %s (restarted) is absent from the view of %s", vfShort(b), vfShort(a))
				} else {
					add("c18-live-member-missing", "running node %s is absent from the view of %s", vfShort(b), vfShort(a))
				}
				continue
			}
			if m.ID != other.id {
				add("c18-stale-incarnation-shadows-restart", "the view of %s lists %s with node id %s but the running incarnation has id %s", vfShort(a), vfShort(b), m.ID, other.id)
			} else if own := other.actor.nodeState; m.Generation != own.Generation {
				add("c18-stale-incarnation-shadows-restart", "the view of %s lists %s at generation %d but the running incarnation is generation %d", vfShort(a), vfShort(b), m.Generation, own.Generation)
			} else if m.Zone() != own.Zone() {
				add("c18-stale-incarnation-shadows-restart", "the view of %s lists %s (id %s, generation %d) with zone label %q, the running incarnation started with %q: the entry is that of an earlier incarnation", vfShort(a), vfShort(b), m.ID, m.Generation, m.Zone(), own.Zone())
			}
			if m.Status != MemberStatusUp {
				add("c18-live-member-not-up", "the view of %s lists running node %s as %s", vfShort(a), vfShort(b), m.Status)
			}
		}
		for addr := range have {
			if running[addr] == nil {
				add("c18-dead-member-present", "the view of %s still lists %s, which crashed or left and is not running", vfShort(a), vfShort(addr))
			}
		}
		l := ComputeLeaderAddr(v)
		leaders[l] = append(leaders[l], vfShort(a))
	}
	if len(leaders) > 1 {
		add("c18-leader-disagreement", "running nodes compute different leaders: %v", leaders)
	}
	// events: the last LEADER event of every running incarnation; announcements inside the window
	lastIam := map[string]bool{}
	n.mu.Lock()
	evs := append([]vfSimEvent(nil), n.events...)
	n.mu.Unlock()
	incStart := map[string]time.Duration{}
	for _, e := range evs {
		if strings.HasPrefix(e.What, "START") {
			incStart[e.Node] = e.At
		}
	}
	var late []string
	for _, e := range evs {
		if running[e.Node] == nil || e.At < incStart[e.Node] {
			continue
		}
		if strings.HasPrefix(e.What, "LEADER") {
			lastIam[e.Node] = strings.Contains(e.What, "iam=true")
		}
		if e.At >= windowStart && (strings.HasPrefix(e.What, "LEADER") || strings.HasPrefix(e.What, "MEMBERS")) {
			late = append(late, fmt.Sprintf("%v %s %s", e.At, vfShort(e.Node), e.What))
		}
	}
	var iam []string
	for a, b := range lastIam {
		if b {
			iam = append(iam, vfShort(a))
		}
	}
	sort.Strings(iam)
	if len(running) > 0 && len(iam) != 1 {
		add("c18-self-leaders", "%d running nodes consider themselves leader (last ClusterLeaderChangedEvent has IAmLeader): %v", len(iam), iam)
	}
	if len(late) > 0 {
		kind := "c18-announcements-after-fixpoint"
		if sc.Class == "faultfree" {
			kind = "c18-flapping-without-faults"
		}
		if len(late) > 8 {
			late = append(late[:8], fmt.Sprintf("… %d more", len(late)-8))
		}
		add(kind, "membership / leader changes are still announced in the observation window (starts @%v): %s", windowStart, strings.Join(late, " | "))
	}
	return
}

// ---- generator ----------------------------------------------------------------------------------------

func vfSimGen(r *verifrt.Rand, idx int) *vfSimScenario {
	sc := &vfSimScenario{Seeds: map[int][]int{}}
	sc.N = 2 + r.Intn(6)
	sc.Opts.Interval = []time.Duration{500 * time.Millisecond, time.Second, time.Second, 2 * time.Second}[r.Intn(4)]
	sc.Opts.Timeout = []time.Duration{4 * time.Second, 6 * time.Second, 10 * time.Second}[r.Intn(3)]
	if sc.Opts.Timeout < 4*sc.Opts.Interval {
		sc.Opts.Timeout = 4 * sc.Opts.Interval
	}
	sc.Opts.Confirm = []time.Duration{0, 0, 2 * time.Second, 5 * time.Second}[r.Intn(4)]
	// targets per tick >= N-1 only: liveness is refreshed by direct contact alone (LastSeen is set when a gossip arrives from
	// that very member), so with fewer targets than peers the detector is probabilistic by construction and removes live
	// members now and then; that option is outside the property's quantifier and is not part of the deciding scenarios
	sc.Opts.Targets = []int{6, 7, 10, 20, 20}[r.Intn(5)]
	sc.Opts.Strategy = r.Intn(3)
	// seed configurations
	seedKind := r.Intn(4)
	nSeeds := 1
	if seedKind == 1 && sc.N >= 3 {
		nSeeds = 2
	}
	for i := 1; i <= sc.N; i++ {
		switch seedKind {
		case 3: // self-seeded islands that share node 1 as a common seed
			if i == 1 || r.Intn(3) > 0 {
				sc.Seeds[i] = []int{1}
			} else {
				sc.Seeds[i] = []int{i, 1}
			}
		default:
			for s := 1; s <= nSeeds; s++ {
				sc.Seeds[i] = append(sc.Seeds[i], s)
			}
		}
	}
	isSeed := func(i int) bool {
		for j := 1; j <= sc.N; j++ {
			for _, s := range sc.Seeds[j] {
				if s == i {
					return true
				}
			}
		}
		return false
	}
	// joins: seeds first, the others sequentially, all at one instant, or with a late joiner
	joinKind := r.Intn(3)
	t := time.Duration(0)
	for i := 1; i <= sc.N; i++ {
		at := t
		switch {
		case i <= nSeeds || (seedKind == 3 && i == 1):
			at = time.Duration(i-1) * 100 * time.Millisecond
		case joinKind == 0:
			t += time.Duration(200+r.Intn(3000)) * time.Millisecond
			at = t
		case joinKind == 1:
			at = 2 * time.Second
		default:
			at = 2*time.Second + time.Duration(r.Intn(1500))*time.Millisecond
			if i == sc.N {
				at = 12*time.Second + time.Duration(r.Intn(5000))*time.Millisecond
			}
		}
		sc.Actions = append(sc.Actions, vfSimAction{At: at, Op: "start", Node: i})
		if at > t {
			t = at
		}
	}
	// a quarter of the scenarios: one ordinary node is started before its seeds are up, so it joins on the retry timer
	if r.Intn(4) == 0 && sc.N >= 3 {
		var cand []int
		for i := 1; i <= sc.N; i++ {
			if !isSeed(i) && len(sc.Seeds[i]) > 0 && sc.Seeds[i][0] != i {
				cand = append(cand, i)
			}
		}
		if len(cand) > 0 {
			early := cand[r.Intn(len(cand))]
			shift := time.Duration(1000+r.Intn(4000)) * time.Millisecond
			for k := range sc.Actions {
				if sc.Actions[k].Node == early {
					sc.Actions[k].At = 0
				} else {
					sc.Actions[k].At += shift
				}
			}
			t += shift
		}
	}
	joined := t + 8*time.Second
	// faults
	class := "faultfree"
	if idx%4 != 0 { // a quarter of the scenarios stays fault-free
		kinds := []string{"crash", "restart", "restart-newid", "leave", "partition", "loss", "delay", "cut"}
		nf := 1 + r.Intn(3)
		ft := joined
		crashed := map[int]bool{}
		var classes []string
		for f := 0; f < nf; f++ {
			ft += time.Duration(500+r.Intn(8000)) * time.Millisecond
			k := kinds[r.Intn(len(kinds))]
			switch k {
			case "crash", "leave", "restart", "restart-newid":
				var cand []int
				for i := 1; i <= sc.N; i++ {
					if !isSeed(i) && !crashed[i] {
						cand = append(cand, i)
					}
				}
				if len(cand) == 0 {
					continue
				}
				v := cand[r.Intn(len(cand))]
				crashed[v] = true
				op := "crash"
				if k == "leave" {
					op = "leave"
				}
				sc.Actions = append(sc.Actions, vfSimAction{At: ft, Op: op, Node: v})
				if k == "restart" || k == "restart-newid" {
					// restart quickly (old incarnation still in every view) or after it has been removed
					gap := time.Duration(200+r.Intn(2000)) * time.Millisecond
					if r.Bool() {
						gap = 2*(sc.Opts.Timeout+sc.Opts.Confirm) + time.Duration(r.Intn(4000))*time.Millisecond
					}
					sc.Actions = append(sc.Actions, vfSimAction{At: ft + gap, Op: k, Node: v})
					if ft+gap > ft {
						ft += gap
					}
					crashed[v] = false
				}
			case "partition":
				if sc.N < 3 {
					continue
				}
				sc.Actions = append(sc.Actions, vfSimAction{At: ft, Op: "partition", Arg: 1 + r.Intn(1<<uint(sc.N)-2)})
				dur := time.Duration(500+r.Intn(3000)) * time.Millisecond
				switch r.Intn(3) {
				case 0:
					dur = 2*(sc.Opts.Timeout+sc.Opts.Confirm) + time.Duration(r.Intn(6000))*time.Millisecond
				case 1: // inside the suspicion window: members get suspected, the partition heals before they are removed
					dur = sc.Opts.Timeout + sc.Opts.Interval + time.Duration(r.Intn(int((sc.Opts.Confirm+sc.Opts.Interval)/time.Millisecond)))*time.Millisecond
				}
				ft += dur
				sc.Actions = append(sc.Actions, vfSimAction{At: ft, Op: "heal"})
			case "cut":
				// one-way loss between two running nodes (the smallest address - the leader - is the preferred source), for a
				// duration aimed at the detector's thresholds: below the timeout, inside the suspicion window
				// (timeout, timeout + confirm), or beyond the removal time
				var live []int
				for i := 1; i <= sc.N; i++ {
					if !crashed[i] {
						live = append(live, i)
					}
				}
				if len(live) < 2 {
					continue
				}
				from := live[0]
				if r.Chance(40) {
					from = live[r.Intn(len(live))]
				}
				to := live[r.Intn(len(live))]
				for to == from {
					to = live[r.Intn(len(live))]
				}
				sc.Actions = append(sc.Actions, vfSimAction{At: ft, Op: "cut", Arg: from*10 + to})
				if r.Chance(40) { // both directions between the two, the rest of the cluster keeps relaying
					sc.Actions = append(sc.Actions, vfSimAction{At: ft, Op: "cut", Arg: to*10 + from})
				}
				var dur time.Duration
				switch r.Intn(4) {
				case 0:
					dur = sc.Opts.Timeout/2 + time.Duration(r.Intn(int(sc.Opts.Timeout/2/time.Millisecond)))*time.Millisecond
				case 1, 2:
					dur = sc.Opts.Timeout + sc.Opts.Interval + time.Duration(r.Intn(int((sc.Opts.Confirm+sc.Opts.Interval)/time.Millisecond)))*time.Millisecond
				default:
					dur = 2*(sc.Opts.Timeout+sc.Opts.Confirm) + time.Duration(r.Intn(4000))*time.Millisecond
				}
				ft += dur
				sc.Actions = append(sc.Actions, vfSimAction{At: ft, Op: "heal"})
			case "loss":
				sc.Actions = append(sc.Actions, vfSimAction{At: ft, Op: "loss", Arg: 5 + r.Intn(26)})
				ft += time.Duration(2000+r.Intn(10000)) * time.Millisecond
				sc.Actions = append(sc.Actions, vfSimAction{At: ft, Op: "noloss"})
			case "delay":
				sc.Actions = append(sc.Actions, vfSimAction{At: ft, Op: "delay", Arg: 50 + r.Intn(750)})
				ft += time.Duration(2000+r.Intn(10000)) * time.Millisecond
				sc.Actions = append(sc.Actions, vfSimAction{At: ft, Op: "delay", Arg: 5})
			}
			classes = append(classes, k)
		}
		if len(classes) > 0 {
			sort.Strings(classes)
			var u []string
			for i, c := range classes {
				if i == 0 || classes[i-1] != c {
					u = append(u, c)
				}
			}
			class = strings.Join(u, "+")
		}
		joined = ft
	}
	sc.Class = class
	sort.SliceStable(sc.Actions, func(i, j int) bool { return sc.Actions[i].At < sc.Actions[j].At })
	sc.FaultsEnd = joined + 500*time.Millisecond
	return sc
}

type vfSimResult struct {
	viols   []vfSimViol
	views   string
	trace   []vfSimEvent
	sent    map[string]int
	dropped int
	harness []string
	window  time.Duration
	end     time.Duration
}

func vfSimRun(t *testing.T, sc *vfSimScenario, seed uint64) (res vfSimResult) {
	rand.Seed(int64(seed)) //nolint:staticcheck // node_actor.go and gossip_selector.go use the global source: pin it for replay
	synctest.Test(t, func(t *testing.T) {
		n := &vfSimNet{rng: verifrt.NewRand(seed), t0: time.Now(), nodes: map[string]*vfSimNode{}, part: map[string]int{}, cut: map[string]bool{}, lastPair: map[string]time.Time{}, sent: map[string]int{}, maxDelay: 5 * time.Millisecond, budget: verifrt.EnvInt("VERIF_SIM_BUDGET", 300000)}
		ids := map[int]string{}
		for i := 1; i <= sc.N; i++ {
			ids[i] = fmt.Sprintf("node-%d", i)
		}
		for _, a := range sc.Actions {
			n.run(a.At)
			addr := vfSimAddr(a.Node)
			switch a.Op {
			case "start":
				n.startNode(sc, a.Node, ids[a.Node])
			case "crash":
				n.crash(addr)
			case "leave":
				if nd := n.nodes[addr]; nd != nil && nd.up {
					n.logf(addr, "LEAVE requested")
					nd.inbox <- vfSimIn{msg: &LeaveRequest{}, sender: &vfSimRef{addr, "/leave-waiter"}}
					// System.Stop goes on once ClusterLeaveCompletedEvent was seen (or after its own timeout)
					for w := 0; w < 100 && !nd.left; w++ {
						n.run(n.now() + 50*time.Millisecond)
					}
					n.crash(addr)
				}
			case "restart", "restart-newid":
				if a.Op == "restart-newid" {
					ids[a.Node] = fmt.Sprintf("node-%d-r%d", a.Node, len(n.all))
				}
				if nd := n.nodes[addr]; nd == nil || !nd.up {
					n.startNode(sc, a.Node, ids[a.Node])
				}
			case "partition":
				for i := 1; i <= sc.N; i++ {
					n.part[vfSimAddr(i)] = (a.Arg >> uint(i-1)) & 1
				}
				n.logf("", "PARTITION mask=%b", a.Arg)
			case "cut":
				n.cut[vfSimAddr(a.Arg/10)+">"+vfSimAddr(a.Arg%10)] = true
				n.logf("", "CUT n%d>n%d", a.Arg/10, a.Arg%10)
			case "heal":
				for i := 1; i <= sc.N; i++ {
					n.part[vfSimAddr(i)] = 0
				}
				for k := range n.cut {
					delete(n.cut, k)
				}
				n.logf("", "HEAL")
			case "loss":
				n.loss = a.Arg
			case "noloss":
				n.loss = 0
			case "delay":
				n.maxDelay = time.Duration(a.Arg) * time.Millisecond
			}
		}
		n.run(sc.FaultsEnd)
		// no faults from here on
		n.loss, n.maxDelay = 0, 5*time.Millisecond
		for k := range n.cut {
			delete(n.cut, k)
		}
		for a := range n.part {
			n.part[a] = 0
		}
		stab := 3*(sc.Opts.Timeout+sc.Opts.Confirm) + 20*sc.Opts.Interval
		window := 2*sc.Opts.Timeout + 2*sc.Opts.Confirm
		res.window = sc.FaultsEnd + stab
		n.logf("", "FAULTS END; stabilisation bound %v, then observation window %v", stab, window)
		n.run(res.window)
		n.logf("", "WINDOW")
		n.run(res.window + window)
		res.end = n.now()
		res.viols = n.check(sc, res.window)
		if n.total >= n.budget {
			res.viols = append(res.viols, vfSimViol{"c18-gossip-storm", fmt.Sprintf("more than %d messages were sent (%v): the views never stop changing", n.budget, n.sent)})
		}
		res.views = n.views()
		for _, nd := range n.all {
			if nd.panicV != nil {
				n.harness = append(n.harness, fmt.Sprintf("node %s panicked: %v", vfShort(nd.addr), nd.panicV))
			}
		}
		res.trace, res.sent, res.dropped, res.harness = n.events, n.sent, n.dropped, n.harness
		// shut down: close inboxes, let outstanding ask timers expire
		for _, nd := range n.all {
			if nd.up {
				nd.up = false
				close(nd.inbox)
			}
		}
		time.Sleep(time.Minute)
		synctest.Wait()
	})
	return
}

func vfSimTrace(evs []vfSimEvent, max int) string {
	var sb strings.Builder
	if len(evs) > max {
		fmt.Fprintf(&sb, "(… %d earlier events)\n", len(evs)-max)
		evs = evs[len(evs)-max:]
	}
	for _, e := range evs {
		fmt.Fprintf(&sb, "%9v %-3s %s\n", e.At.Truncate(time.Millisecond), vfShort(e.Node), e.What)
	}
	return sb.String()
}

func TestVerif_gossipsim(t *testing.T) {
	R := verifrt.NewReport("gossipsim", "fixpoint monitor over a deterministic simulation of 2..7 real NodeActor instances (mock ActorContext: Tell/Ask/Reply over a simulated network with per-pair FIFO, PRNG cross-pair order, latency, loss, partitions; scheduler timers with the phase offsets that the start instants produce; messages through the real cluster codec) in virtual time. Scenarios: join orders (sequential, one instant, late joiner), one/two seeds, self-seeded islands, option sweep (interval, detection timeout, suspect-confirm, targets per tick, concurrent-version strategy), fault phase with crashes, restarts (same / fresh node id; before / after removal), graceful Leave, partitions that heal (shorter / longer than the removal time), loss 5-30 %, delays up to 800 ms. After the last fault: stabilisation bound 3 x (timeout + confirm) + 20 intervals of virtual time, then an observation window of 2 x (timeout + confirm) in which every running node must hold exactly the running nodes (newest incarnation, Up), all compute one leader, exactly one considers itself leader, and no membership / leader change is announced. non-trivial+distinct = distinct scenarios in which every started node exchanged gossip")
	defer R.Flush()
	N := verifrt.EnvInt("VERIF_N", 1500)
	if verifrt.Thorough() {
		N = verifrt.EnvInt("VERIF_N", 60000)
	}
	only := verifrt.EnvInt("VERIF_CASE", -1)
	for ci := 0; ci < N; ci++ {
		if !verifrt.Mine(ci) || (only >= 0 && only != ci) {
			continue
		}
		seed := verifrt.CaseSeed("gossipsim", ci)
		sc := vfSimGen(verifrt.NewRand(seed), ci)
		desc := sc.String()
		R.Journal(ci, desc)
		w0 := time.Now()
		res := vfSimRun(t, sc, seed)
		if d := time.Since(w0); d > 3*time.Second {
			if f := os.Getenv("VERIF_DEBUG_FILE"); f != "" {
				if fh, err := os.OpenFile(f, os.O_APPEND|os.O_CREATE|os.O_WRONLY, 0o644); err == nil {
					fmt.Fprintf(fh, "slow %d: %v wall, sent=%v, %v virtual: %s\n", ci, d, res.sent, res.end, desc)
					_ = fh.Close()
				}
			}
			R.Note(fmt.Sprintf("slow scenario %d: %v wall, %d gossip messages, %v virtual: %s", ci, d, res.sent["*cluster.GossipMessage"], res.end, desc))
		}
		R.Eval()
		if len(res.harness) > 0 {
			R.Violate(ci, "harness-sim", "simulator", strings.Join(res.harness, "; ")+" | "+desc, nil)
			continue
		}
		if res.sent["*cluster.GossipMessage"] > 0 {
			R.Nontrivial(desc)
		}
		R.Obs("class_"+sc.Class, 1)
		R.Obs("gossip_messages", int64(res.sent["*cluster.GossipMessage"]))
		R.Obs("join_requests", int64(res.sent["*cluster.JoinRequest"]))
		R.Obs("messages_dropped_by_faults", int64(res.dropped))
		R.Obs("virtual_seconds_simulated", int64(res.end/time.Second))
		for _, v := range res.viols {
			R.Violate(ci, v.Kind, sc.Class, v.Detail+"\nscenario: "+desc+"\nviews at the end:\n"+res.views+"trace (tail):\n"+vfSimTrace(res.trace, 60),
				map[string]any{"scenario": desc, "views": res.views, "trace": vfSimTrace(res.trace, 400)})
		}
		if ci < 3 {
			R.Sample(map[string]any{"scenario": desc, "views": res.views, "messages": fmt.Sprint(res.sent), "trace_tail": vfSimTrace(res.trace, 12)})
		}
	}
}
