//go:build verif

package cluster

import (
	"fmt"
	"sort"
	"strings"
	"testing"
	"time"

	"github.com/kercylan98/vivid/internal/verifrt"
)

// C17 — merge-law oracle over ClusterViews reachable through the API the node itself uses
// (DESIGN §4 C17). Membership is compared as member -> (generation, logical clock).

func vfMemSig(v *ClusterView) string {
	ks := make([]string, 0, len(v.Members))
	for id, m := range v.Members {
		if m == nil {
			continue
		}
		ks = append(ks, fmt.Sprintf("%s:g%d:lc%d", id, m.Generation, m.LogicalClock))
	}
	sort.Strings(ks)
	return strings.Join(ks, " ")
}

// full signature: everything a caller could observe of a view (used for "input not mutated")
func vfFullSig(v *ClusterView) string {
	ks := make([]string, 0, len(v.Members))
	for id, m := range v.Members {
		if m == nil {
			ks = append(ks, id+":nil")
			continue
		}
		lb := verifrt.SortedKeys(m.Labels)
		ls := ""
		for _, k := range lb {
			ls += k + "=" + m.Labels[k] + ","
		}
		ks = append(ks, fmt.Sprintf("%s:%s:g%d:lc%d:st%d:ts%d:%s", id, m.Address, m.Generation, m.LogicalClock, m.Status, m.Timestamp, ls))
	}
	sort.Strings(ks)
	return fmt.Sprintf("e%d ts%d pv%d vv{%s} m[%s]", v.Epoch, v.Timestamp, v.ProtocolVersion, vfVVSnap(v.VersionVector.Compact()), strings.Join(ks, " "))
}

type vfViewGen struct {
	rng    *verifrt.Rand
	ids    []string
	latest map[string]*NodeState // newest incarnation created so far per id
	hist   map[string][]*NodeState // every incarnation created so far per id
	pool   []*ClusterView
	owner  []string
}

func (g *vfViewGen) state(id string) *NodeState {
	st := g.latest[id]
	if st == nil {
		st = newNodeState(id, "c", "127.0.0.1:"+fmt.Sprint(7000+int(id[1]-'0')))
		st.Status = MemberStatusUp
		st.Labels[LabelDatacenter] = "dc1"
		g.latest[id] = st
		if g.hist == nil {
			g.hist = map[string][]*NodeState{}
		}
		g.hist[id] = append(g.hist[id], st)
	}
	return st
}

func (g *vfViewGen) gen(n int) {
	for len(g.pool) < n {
		var v *ClusterView
		var owner string
		if len(g.pool) > 0 && g.rng.Intn(3) > 0 {
			k := g.rng.Intn(len(g.pool))
			v = g.pool[k].Snapshot()
			owner = g.owner[k]
		} else {
			v = newClusterView()
			owner = g.ids[g.rng.Intn(len(g.ids))]
			// bootstrapAsSeed / tryJoinSeeds: add self, increment own component
			v.AddMember(g.state(owner))
			v.IncrementVersion(owner)
		}
		steps := 1 + g.rng.Intn(4)
		for k := 0; k < steps; k++ {
			id := g.ids[g.rng.Intn(len(g.ids))]
			switch g.rng.Intn(8) {
			case 0, 1: // handleJoinRequest: accept a joiner, bump the acceptor's component
				acc := g.state(id).Clone()
				acc.Status = MemberStatusUp
				v.AddMember(acc)
				v.IncrementVersion(owner)
			case 2: // restart of id: generation bump as in tryJoinSeeds
				prev := g.state(id)
				ns := prev.Clone()
				switch g.rng.Intn(4) {
				case 0: // restart that remembers its logical clock (tryJoinSeeds with the previous incarnation in view)
					ns.Generation = prev.Generation + 1
					ns.LogicalClock = prev.LogicalClock + 1
				case 1: // restart that lost its state: new generation, logical clock starts over
					ns.Generation = prev.Generation + 1
					ns.LogicalClock = 1
				case 2: // same generation, state change bumps the logical clock
					ns.LogicalClock = prev.LogicalClock + uint64(1+g.rng.Intn(6))
				default: // new generation, clock far ahead or behind
					ns.Generation = prev.Generation + 1
					ns.LogicalClock = uint64(1 + g.rng.Intn(9))
				}
				ns.Timestamp = prev.Timestamp + int64(g.rng.Intn(1000)) - 300 // clocks may step back across restarts
				g.latest[id] = ns
				g.hist[id] = append(g.hist[id], ns)
				v.AddMember(ns)
				if id == owner {
					v.IncrementVersion(owner)
				}
			case 3: // runFailureDetection: suspect
				if m := v.Members[id]; m != nil && id != owner {
					m.Status = MemberStatusSuspect
					v.IncrementVersion(owner)
				}
			case 4: // runFailureDetection / ForceMemberDown: remove
				if id != owner && len(v.Members) > 1 {
					v.RemoveMember(id)
					v.IncrementVersion(owner)
				}
			case 5, 6: // handleGossip: merge an earlier view
				if len(g.pool) > 0 {
					o := g.pool[g.rng.Intn(len(g.pool))]
					v.MergeFromWithOptions(o.Snapshot(), MergeOptions{VersionConcurrentStrategy: g.rng.Intn(3)})
				}
			case 7: // an older incarnation arrives late (stale JoinRequest / stale gossip)
				g.state(id)
				h := g.hist[id]
				v.AddMember(h[g.rng.Intn(len(h))].Clone())
			}
			if g.rng.Intn(4) == 0 {
				v.Epoch += int64(g.rng.Intn(3))
			}
		}
		g.pool = append(g.pool, v)
		g.owner = append(g.owner, owner)
	}
}

func vfNewer(a, b *NodeState) bool { // (gen, lc) lexicographic
	if a.Generation != b.Generation {
		return a.Generation > b.Generation
	}
	return a.LogicalClock > b.LogicalClock
}

type viewChecker struct {
	R   *verifrt.Report
	idx int
}

func (c *viewChecker) bad(kind, key, f string, a ...any) {
	c.R.Violate(c.idx, kind, key, fmt.Sprintf(f, a...), nil)
}

func (c *viewChecker) pair(a, b *ClusterView, opts MergeOptions) (nontrivial bool) {
	key := fmt.Sprintf("strategy=%d", opts.VersionConcurrentStrategy)
	asig, bsig := vfFullSig(a), vfFullSig(b)
	x := a.Snapshot()
	bIn := b.Snapshot()
	beforeMem := vfMemSig(x)
	beforeFull := vfFullSig(x)
	beforeVV := x.VersionVector.Clone()
	beforeEpoch := x.Epoch
	beforeMembers := map[string]*NodeState{}
	for id, m := range x.Members {
		beforeMembers[id] = m.Clone()
	}
	ch := x.MergeFromWithOptions(bIn, opts)

	if vfFullSig(bIn) != bsig {
		c.bad("merge-mutates-input", key, "other before=%s after=%s", bsig, vfFullSig(bIn))
	}
	y := b.Snapshot()
	y.MergeFromWithOptions(a.Snapshot(), opts)
	if vfMemSig(x) != vfMemSig(y) {
		c.bad("merge-not-commutative", key, "a=[%s] b=[%s] a+b=[%s] b+a=[%s]", vfMemSig(a), vfMemSig(b), vfMemSig(x), vfMemSig(y))
	}
	// union, newest incarnation
	for id, m := range beforeMembers {
		r := x.Members[id]
		if r == nil {
			c.bad("merge-removes-member", key, "id=%s a=[%s] b=[%s] res=[%s]", id, beforeMem, vfMemSig(b), vfMemSig(x))
		} else if vfNewer(m, r) {
			c.bad("merge-regresses-member", key, "id=%s had g%d/lc%d now g%d/lc%d", id, m.Generation, m.LogicalClock, r.Generation, r.LogicalClock)
		}
	}
	for id, m := range b.Members {
		r := x.Members[id]
		if r == nil {
			c.bad("merge-misses-member", key, "id=%s a=[%s] b=[%s] res=[%s]", id, beforeMem, vfMemSig(b), vfMemSig(x))
		} else if vfNewer(m, r) {
			c.bad("merge-not-newest", key, "id=%s other has g%d/lc%d result g%d/lc%d", id, m.Generation, m.LogicalClock, r.Generation, r.LogicalClock)
		}
	}
	for id := range x.Members {
		if beforeMembers[id] == nil && b.Members[id] == nil {
			c.bad("merge-invents-member", key, "id=%s", id)
		}
	}
	if x.Epoch < beforeEpoch {
		c.bad("merge-lowers-epoch", key, "%d -> %d", beforeEpoch, x.Epoch)
	}
	for id := range beforeMembers {
		if x.VersionVector.Get(id) < beforeVV.Get(id) {
			c.bad("merge-lowers-vv-entry", key, "id=%s %s -> %s", id, vfVVSnap(beforeVV), vfVVSnap(x.VersionVector))
		}
	}
	vvChanged := vfModelCompare(beforeVV, x.VersionVector) != VersionEqual
	memChanged := vfFullSigMembers(x) != vfFullSigMembersOf(beforeMembers)
	if (vvChanged || memChanged) && !ch {
		c.bad("changed-flag-false-on-change", key, "before=%s after=%s", beforeFull, vfFullSig(x))
	}
	// idempotent
	z := x.Snapshot()
	z.MergeFromWithOptions(b.Snapshot(), opts)
	if vfMemSig(z) != vfMemSig(x) {
		c.bad("merge-not-idempotent", key, "x=[%s] x+b=[%s]", vfMemSig(x), vfMemSig(z))
	}
	// aliasing: stored states are clones
	for id, m := range bIn.Members {
		r := x.Members[id]
		if r == nil || m == nil {
			continue
		}
		if r == m {
			c.bad("merge-aliases-input-state", key, "id=%s shares *NodeState with the merged-from view", id)
			break
		}
		if m.Labels != nil && len(m.Labels) > 0 && r.Labels != nil {
			m.Labels["vf-probe"] = "1"
			if _, leaked := r.Labels["vf-probe"]; leaked {
				c.bad("merge-aliases-input-state", key, "id=%s shares Labels map with the merged-from view", id)
			}
			delete(m.Labels, "vf-probe")
		}
	}
	if vfFullSig(a) != asig || vfFullSig(b) != bsig {
		c.bad("merge-mutates-input", key, "pool view changed")
	}
	return vfMemSig(x) != beforeMem
}

// pairExpired: the merge as NodeActor performs it, i.e. with MergeOptions.IsExpired set (getMergeOptions always sets it):
// members that the receiving view does not hold and whose LastSeen is past the removal threshold are not adopted (removal
// is local, a pure union would re-add crashed members for ever). That filter speaks of UNKNOWN members only: for a member
// the view already holds the newest incarnation still wins, whatever LastSeen the sender recorded for it; nothing is
// removed or regressed; members that are not expired are adopted; the changed flag tells the truth. expiredIDs: the ids
// whose entry in the incoming view carries a stale LastSeen (the sender has not heard from them for a long time).
func (c *viewChecker) pairExpired(a, b *ClusterView, strat int, expiredIDs map[string]bool) {
	key := fmt.Sprintf("is-expired/strategy=%d", strat)
	const stale = int64(1)
	x := a.Snapshot()
	bIn := b.Snapshot()
	for id, m := range bIn.Members {
		if expiredIDs[id] {
			m.LastSeen = stale
		}
	}
	opts := MergeOptions{VersionConcurrentStrategy: strat, IsExpired: func(m *NodeState) bool { return m.LastSeen == stale }}
	beforeMembers := map[string]*NodeState{}
	for id, m := range x.Members {
		beforeMembers[id] = m.Clone()
	}
	beforeVV := x.VersionVector.Clone()
	ch := x.MergeFromWithOptions(bIn, opts)
	for id, m := range beforeMembers {
		r := x.Members[id]
		if r == nil {
			c.bad("merge-removes-member", key, "id=%s a=[%s] b=[%s] res=[%s]", id, vfMemSig(a), vfMemSig(b), vfMemSig(x))
			continue
		}
		if vfNewer(m, r) {
			c.bad("merge-regresses-member", key, "id=%s had g%d/lc%d now g%d/lc%d", id, m.Generation, m.LogicalClock, r.Generation, r.LogicalClock)
		}
		if o := b.Members[id]; o != nil && vfNewer(o, r) {
			c.bad("merge-not-newest", key, "id=%s is held by the receiving view at g%d/lc%d, the incoming view has g%d/lc%d (its LastSeen there is stale=%v), the result keeps g%d/lc%d", id, m.Generation, m.LogicalClock, o.Generation, o.LogicalClock, expiredIDs[id], r.Generation, r.LogicalClock)
		}
	}
	for id := range b.Members {
		if beforeMembers[id] == nil && !expiredIDs[id] && x.Members[id] == nil {
			c.bad("merge-misses-member", key, "id=%s is unknown to the receiving view and not expired, yet it was not adopted", id)
		}
	}
	vvChanged := vfModelCompare(beforeVV, x.VersionVector) != VersionEqual
	memChanged := vfFullSigMembers(x) != vfFullSigMembersOf(beforeMembers)
	if (vvChanged || memChanged) && !ch {
		c.bad("changed-flag-false-on-change", key, "a=[%s] b=[%s] res=[%s]", vfMemSig(a), vfMemSig(b), vfMemSig(x))
	}
}

func vfFullSigMembers(v *ClusterView) string { return vfFullSigMembersOf(v.Members) }
func vfFullSigMembersOf(ms map[string]*NodeState) string {
	ks := []string{}
	for id, m := range ms {
		ks = append(ks, fmt.Sprintf("%s:%s:g%d:lc%d:st%d", id, m.Address, m.Generation, m.LogicalClock, m.Status))
	}
	sort.Strings(ks)
	return strings.Join(ks, " ")
}

func (c *viewChecker) triple(a, b, d *ClusterView, opts MergeOptions) {
	vs := []*ClusterView{a, b, d}
	perms := [][3]int{{0, 1, 2}, {0, 2, 1}, {1, 0, 2}, {1, 2, 0}, {2, 0, 1}, {2, 1, 0}}
	want := ""
	for pi, p := range perms {
		// left association ((p0+p1)+p2)
		x := vs[p[0]].Snapshot()
		x.MergeFromWithOptions(vs[p[1]].Snapshot(), opts)
		x.MergeFromWithOptions(vs[p[2]].Snapshot(), opts)
		// right association (p0+(p1+p2))
		r := vs[p[1]].Snapshot()
		r.MergeFromWithOptions(vs[p[2]].Snapshot(), opts)
		y := vs[p[0]].Snapshot()
		y.MergeFromWithOptions(r, opts)
		if pi == 0 {
			want = vfMemSig(x)
		}
		if vfMemSig(x) != want || vfMemSig(y) != want {
			c.bad("merge-order-sensitive", fmt.Sprintf("strategy=%d", opts.VersionConcurrentStrategy), "a=[%s] b=[%s] c=[%s] order=%v left=[%s] right=[%s] first=[%s]", vfMemSig(a), vfMemSig(b), vfMemSig(d), p, vfMemSig(x), vfMemSig(y), want)
			return
		}
	}
}

func (c *viewChecker) cloneProbes(v *ClusterView) {
	// AddMember stores a clone
	st := newNodeState("zz", "c", "127.0.0.1:9999")
	st.Labels["k"] = "v"
	w := v.Snapshot()
	w.AddMember(st)
	st.Status = MemberStatusDown
	st.Labels["k"] = "changed"
	if got := w.Members["zz"]; got == nil || got.Status == MemberStatusDown || got.Labels["k"] != "v" {
		c.bad("addmember-aliases-caller-state", "AddMember", "stored state follows the caller's later mutation")
	}
	// AddMember never replaces by an older incarnation
	for id, m := range v.Members {
		old := m.Clone()
		if old.Generation > 1 {
			old.Generation--
			w2 := v.Snapshot()
			w2.AddMember(old)
			if w2.Members[id].Generation != m.Generation {
				c.bad("addmember-regresses-member", "AddMember", "id=%s g%d replaced by g%d", id, m.Generation, old.Generation)
			}
		}
	}
	// Snapshot is independent
	s := v.Snapshot()
	before := vfFullSig(v)
	for _, m := range s.Members {
		m.Status = MemberStatusRemoved
		m.Generation += 7
		if m.Labels != nil {
			m.Labels["x"] = "y"
		}
	}
	s.RemoveMember(firstKey(s.Members))
	s.IncrementVersion("n1")
	if vfFullSig(v) != before {
		c.bad("snapshot-aliases-view", "Snapshot", "mutating a snapshot changed the original: %s -> %s", before, vfFullSig(v))
	}
}

func firstKey(m map[string]*NodeState) string {
	ks := make([]string, 0, len(m))
	for k := range m {
		ks = append(ks, k)
	}
	sort.Strings(ks)
	if len(ks) == 0 {
		return ""
	}
	return ks[0]
}

func TestVerif_viewlaws(t *testing.T) {
	R := verifrt.NewReport("viewlaws", "pool of views built only through newClusterView/AddMember/IncrementVersion/RemoveMember/status change/generation bump/earlier merges over ids n1..n4; every ordered pair x 3 concurrent-version strategies x 3 clock-skew settings; PRNG triples x 6 orders x 2 associations. every ordered pair once more the way NodeActor merges (MergeOptions.IsExpired set, PRNG-chosen members carrying a stale LastSeen in the incoming view): held members still move to the newest incarnation, nothing removed or regressed, unknown non-expired members adopted, changed flag truthful. non-trivial+distinct = distinct (membership(a), membership(b), strategy) where the merge changed a's membership")
	defer R.Flush()
	c := &viewChecker{R: R}
	sh, nsh := verifrt.Shard()
	poolN := verifrt.EnvInt("VERIF_POOL", 60)
	triplesN := verifrt.EnvInt("VERIF_TRIPLES", 20000)
	if verifrt.Thorough() {
		poolN, triplesN = 400, 400000
	}
	// the pool is the same in every shard (same seed); shards split the pairs
	g := &vfViewGen{rng: verifrt.NewRand(verifrt.CaseSeed("viewlaws-pool", 0)), ids: []string{"n1", "n2", "n3", "n4"}, latest: map[string]*NodeState{}}
	g.gen(poolN)
	pool := g.pool
	sizes := map[int]int64{}
	for _, v := range pool {
		sizes[len(v.Members)]++
	}
	for k, n := range sizes {
		R.ObsMax(fmt.Sprintf("max:pool_views_with_%d_members", k), n)
	}
	skews := []time.Duration{0, time.Nanosecond, 1000 * time.Hour}
	for i, a := range pool {
		if i%nsh != sh {
			continue
		}
		c.idx = i
		R.Journal(i, "pairs of view "+vfMemSig(a))
		c.cloneProbes(a)
		for _, strat := range []int{0, 1, 2} {
			for _, skew := range skews {
				opts := MergeOptions{VersionConcurrentStrategy: strat, MaxClockSkew: skew}
				for _, b := range pool {
					nt := c.pair(a, b, opts)
					R.Eval()
					if nt {
						R.Nontrivial(fmt.Sprintf("%s|%s|%d", vfMemSig(a), vfMemSig(b), strat))
						R.Obs("pairs_changing_membership", 1)
					}
					if a.VersionVector.Compare(b.VersionVector) == VersionConcurrent {
						R.Obs("pairs_with_concurrent_vv", 1)
					}
				}
			}
		}
	}
	// the merge under the node's own options (IsExpired set): every ordered pair, PRNG-chosen stale members
	rngE := verifrt.NewRand(verifrt.CaseSeed("viewlaws-expired", sh))
	for i, a := range pool {
		if i%nsh != sh {
			continue
		}
		c.idx = 2000000 + i
		for _, b := range pool {
			exp := map[string]bool{}
			for id := range b.Members {
				if rngE.Intn(100) < 40 {
					exp[id] = true
				}
			}
			c.pairExpired(a, b, rngE.Intn(3), exp)
			R.Eval()
			R.Obs("pairs_with_is_expired", 1)
		}
	}
	rng := verifrt.NewRand(verifrt.CaseSeed("viewlaws-triples", sh))
	for k := 0; k < triplesN/nsh; k++ {
		c.idx = 1000000 + k
		a, b, d := pool[rng.Intn(len(pool))], pool[rng.Intn(len(pool))], pool[rng.Intn(len(pool))]
		c.triple(a, b, d, MergeOptions{VersionConcurrentStrategy: rng.Intn(3), MaxClockSkew: skews[rng.Intn(3)]})
		R.Eval()
		R.Obs("triples", 1)
	}
	for i := 0; i < 3 && i < len(pool); i++ {
		v := pool[len(pool)-1-i]
		R.Sample(map[string]any{"view": vfFullSig(v)})
	}
	if len(pool) >= 2 {
		x := pool[len(pool)-1].Snapshot()
		ch := x.MergeFrom
		_ = ch
		b := pool[len(pool)-2]
		changed := x.MergeFromWithOptions(b.Snapshot(), MergeOptions{})
		R.Sample(map[string]any{"a": vfMemSig(pool[len(pool)-1]), "b": vfMemSig(b), "merged": vfMemSig(x), "changed": changed})
	}
}
