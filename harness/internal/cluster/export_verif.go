//go:build verif

package cluster

import "github.com/kercylan98/vivid"

// Exports for the /verif harness (overlaid at check time, never part of the repository).

func VfMakeVV(m map[string]uint64) VersionVector {
	v := NewVersionVector()
	for k, c := range m {
		v.m[k] = c
	}
	return v
}

func VfVVEntries(v VersionVector) map[string]uint64 {
	out := map[string]uint64{}
	for k, c := range v.m {
		if c != 0 {
			out[k] = c
		}
	}
	return out
}

func VfNewSingletonForwarded(senderAddr, senderPath string, sender vivid.ActorRef, msg any) any {
	return &singletonForwardedMessage{sender: sender, senderAddr: senderAddr, senderPath: senderPath, message: msg}
}

func VfSingletonForwardedFields(m any) (senderAddr, senderPath string, msg any, ok bool) {
	s, ok := m.(*singletonForwardedMessage)
	if !ok {
		return "", "", nil, false
	}
	senderAddr, senderPath = s.senderAddr, s.senderPath
	if s.sender != nil {
		senderAddr, senderPath = s.sender.GetAddress(), s.sender.GetPath()
	}
	return senderAddr, senderPath, s.message, true
}

func VfNewClusterView() *ClusterView { return newClusterView() }

func VfNewNodeState(id, cluster, addr string) *NodeState { return newNodeState(id, cluster, addr) }
