//go:build verif

package cluster_test

import (
	"fmt"
	"net"
	"os"
	"sort"
	"strings"
	"sync"
	"testing"
	"time"

	"github.com/kercylan98/vivid"
	"github.com/kercylan98/vivid/internal/verifrt"
	"github.com/kercylan98/vivid/pkg/bootstrap"
	"github.com/kercylan98/vivid/pkg/log"
	"github.com/kercylan98/vivid/pkg/ves"
)

// C18 gossip-real (DESIGN §4 C18): the same fixpoint monitor as gossip-sim, over real ActorSystems with remoting and the
// cluster extension on loopback TCP, through the public API only (Cluster().GetMembers/GetView, cluster events). It anchors
// the simulator against the full stack: the knock-on effects of the transport (blocking sends, connection teardown,
// Leave during Stop) are invisible to the simulator.

var (
	vfRealPortMu   sync.Mutex
	vfRealPortNext int
)

func vfRealAddr() string {
	vfRealPortMu.Lock()
	defer vfRealPortMu.Unlock()
	base := 10000 + (os.Getpid()%44)*500
	for tries := 0; tries < 500; tries++ {
		a := fmt.Sprintf("127.0.0.1:%d", base+vfRealPortNext%500)
		vfRealPortNext++
		if l, err := net.Listen("tcp", a); err == nil {
			_ = l.Close()
			return a
		}
	}
	panic("no free port")
}

type vfRealEvents struct {
	mu  sync.Mutex
	evs []string // "<ms> MEMBERS ..." / "<ms> LEADER ..."
	iam *bool
	t0  time.Time
}

func (e *vfRealEvents) OnReceive(ctx vivid.ActorContext) {
	switch m := ctx.Message().(type) {
	case *vivid.OnLaunch:
		ctx.EventStream().Subscribe(ctx, ves.ClusterMembersChangedEvent{})
		ctx.EventStream().Subscribe(ctx, ves.ClusterLeaderChangedEvent{})
	case ves.ClusterMembersChangedEvent:
		e.mu.Lock()
		e.evs = append(e.evs, fmt.Sprintf("%d MEMBERS n=%d +%d -%d", time.Since(e.t0).Milliseconds(), len(m.Members), m.AddedNum, m.RemovedNum))
		e.mu.Unlock()
	case ves.ClusterLeaderChangedEvent:
		e.mu.Lock()
		b := m.IAmLeader
		e.iam = &b
		e.evs = append(e.evs, fmt.Sprintf("%d LEADER %s iam=%v", time.Since(e.t0).Milliseconds(), m.LeaderAddr, m.IAmLeader))
		e.mu.Unlock()
	}
}

type vfRealNode struct {
	addr string
	sys  vivid.ActorSystem
	ev   *vfRealEvents
	up   bool
}

func vfRealStart(addr string, seeds []string, t0 time.Time, interval, timeout time.Duration) (*vfRealNode, error) {
	n := &vfRealNode{addr: addr, ev: &vfRealEvents{t0: t0}}
	n.sys = bootstrap.NewActorSystem(
		vivid.WithActorSystemLogger(log.NewSilentLogger()),
		vivid.WithActorSystemRemoting(addr),
		vivid.WithActorSystemStopTimeout(30*time.Second),
		vivid.WithActorSystemRemotingOption(
			vivid.WithActorSystemRemotingReconnectLimit(1),
			vivid.WithActorSystemRemotingClusterOption(
				vivid.WithClusterSeeds(seeds),
				vivid.WithClusterDiscoveryInterval(interval),
				vivid.WithClusterFailureDetectionTimeout(timeout),
			),
		),
	)
	if err := n.sys.Start(); err != nil {
		return nil, err
	}
	if _, err := n.sys.ActorOf(n.ev, vivid.WithActorName("vf-cluster-events")); err != nil {
		return nil, err
	}
	n.up = true
	return n, nil
}

func vfRealStop(n *vfRealNode) error {
	n.up = false
	done := make(chan error, 1)
	go func() { done <- n.sys.Stop() }()
	select {
	case err := <-done:
		return err
	case <-time.After(60 * time.Second):
		return fmt.Errorf("Stop of %s did not return within 60 s", n.addr)
	}
}

// vfRealFixpoint: every running node lists exactly the running addresses and agrees on the leader; returns "" when it holds.
func vfRealFixpoint(nodes []*vfRealNode) string {
	var want []string
	for _, n := range nodes {
		if n.up {
			want = append(want, n.addr)
		}
	}
	sort.Strings(want)
	leaders := map[string]bool{}
	for _, n := range nodes {
		if !n.up {
			continue
		}
		ms, err := n.sys.Cluster().GetMembers()
		if err != nil {
			return fmt.Sprintf("%s: GetMembers: %v", n.addr, err)
		}
		var got []string
		for _, m := range ms {
			got = append(got, m.Address)
		}
		sort.Strings(got)
		if strings.Join(got, ",") != strings.Join(want, ",") {
			return fmt.Sprintf("%s lists %v, running are %v", n.addr, got, want)
		}
		v, err := n.sys.Cluster().GetView()
		if err != nil {
			return fmt.Sprintf("%s: GetView: %v", n.addr, err)
		}
		leaders[v.LeaderAddr] = true
	}
	if len(leaders) != 1 {
		return fmt.Sprintf("leaders differ: %v", leaders)
	}
	return ""
}

func vfRealCount(nodes []*vfRealNode) (n int) {
	for _, x := range nodes {
		x.ev.mu.Lock()
		n += len(x.ev.evs)
		x.ev.mu.Unlock()
	}
	return
}

func TestVerif_gossipreal(t *testing.T) {
	R := verifrt.NewReport("gossipreal", "real ActorSystems with remoting + cluster on loopback TCP (interval 300 ms, detection timeout 3 s), public API only: (1) 4 nodes join through one seed; (2) a non-seed node is stopped (graceful Leave + Stop); (3) it is started again at the same address (fresh node id, the default); (4) a late fifth node joins. After each phase: bounded stabilisation (3 x timeout + 20 intervals), then an observation window of 2 x timeout in which every running node must list exactly the running addresses, all agree on the leader, exactly one considers itself leader and no ClusterMembersChanged/ClusterLeaderChanged event is published. A phase during which the scheduler stalled is inconclusive. non-trivial+distinct = phases whose fixpoint was reached with >= 3 running nodes")
	defer R.Flush()
	if !verifrt.Mine(0) {
		return
	}
	const interval, timeout = 300 * time.Millisecond, 3 * time.Second
	stab := 3*timeout + 20*interval
	window := 2 * timeout
	t0 := time.Now()
	addrs := []string{vfRealAddr(), vfRealAddr(), vfRealAddr(), vfRealAddr(), vfRealAddr()}
	sort.Strings(addrs)
	seeds := []string{addrs[0]}
	var nodes []*vfRealNode
	defer func() {
		for _, n := range nodes {
			if n.up {
				_ = vfRealStop(n)
			}
		}
	}()
	dump := func() string {
		var sb strings.Builder
		for _, n := range nodes {
			n.ev.mu.Lock()
			fmt.Fprintf(&sb, "%s up=%v: %s\n", n.addr, n.up, strings.Join(n.ev.evs, " | "))
			n.ev.mu.Unlock()
		}
		return sb.String()
	}
	phase := func(idx int, name string) {
		R.Journal(idx, name)
		// stall detector
		var maxStall time.Duration
		stop := make(chan struct{})
		var wg sync.WaitGroup
		wg.Add(1)
		go func() {
			defer wg.Done()
			last := time.Now()
			for {
				select {
				case <-stop:
					return
				case <-time.After(10 * time.Millisecond):
				}
				if d := time.Since(last) - 10*time.Millisecond; d > maxStall {
					maxStall = d
				}
				last = time.Now()
			}
		}()
		// bounded stabilisation: poll for the fixpoint
		deadline := time.Now().Add(stab)
		why := vfRealFixpoint(nodes)
		for why != "" && time.Now().Before(deadline) {
			time.Sleep(100 * time.Millisecond)
			why = vfRealFixpoint(nodes)
		}
		reached := why == ""
		before := vfRealCount(nodes)
		var late string
		if reached {
			time.Sleep(window)
			why = vfRealFixpoint(nodes)
			if n := vfRealCount(nodes); n != before {
				late = fmt.Sprintf("%d membership / leader events were published during the observation window", n-before)
			}
		}
		close(stop)
		wg.Wait()
		R.Eval()
		iam := 0
		running := 0
		for _, n := range nodes {
			if !n.up {
				continue
			}
			running++
			// "considers itself leader": through the public view (the bootstrap announcement of a seed precedes any subscriber)
			if v, err := n.sys.Cluster().GetView(); err == nil && v.LeaderAddr == n.addr {
				iam++
			}
		}
		var viol []string
		if !reached {
			viol = append(viol, fmt.Sprintf("c18-no-fixpoint|fixpoint not reached within %v: %s", stab, why))
		} else {
			if why != "" {
				viol = append(viol, "c18-fixpoint-lost|the fixpoint was reached and lost again: "+why)
			}
			if late != "" {
				viol = append(viol, "c18-announcements-after-fixpoint|"+late)
			}
			if iam != 1 {
				viol = append(viol, fmt.Sprintf("c18-self-leaders|%d running nodes consider themselves leader", iam))
			}
		}
		if maxStall > time.Second && len(viol) > 0 {
			R.Inconcl(fmt.Sprintf("phase %q: scheduler stall of %v: %v", name, maxStall, viol))
			return
		}
		for _, v := range viol {
			kv := strings.SplitN(v, "|", 2)
			R.Violate(idx, kv[0], "real:"+name, kv[1]+"\nevents:\n"+dump(), map[string]any{"phase": name})
		}
		if reached && running >= 3 {
			R.Nontrivial(name)
		}
		R.Sample(map[string]any{"phase": name, "running": running, "fixpoint_reached": reached, "self_leaders": iam, "max_stall": maxStall.String()})
	}
	for i := 0; i < 4; i++ {
		n, err := vfRealStart(addrs[i], seeds, t0, interval, timeout)
		if err != nil {
			R.Inconcl("start: " + err.Error())
			return
		}
		nodes = append(nodes, n)
	}
	phase(0, "4 nodes join through one seed")
	if err := vfRealStop(nodes[2]); err != nil {
		R.Violate(1, "c18-stop", "real:stop", err.Error(), nil)
	}
	phase(1, "a non-seed node leaves and stops")
	n, err := vfRealStart(addrs[2], seeds, t0, interval, timeout)
	if err != nil {
		R.Inconcl("restart: " + err.Error())
		return
	}
	nodes[2] = n
	phase(2, "the stopped node starts again at the same address with a fresh node id")
	n5, err := vfRealStart(addrs[4], seeds, t0, interval, timeout)
	if err != nil {
		R.Inconcl("start 5: " + err.Error())
		return
	}
	nodes = append(nodes, n5)
	phase(3, "a late fifth node joins")
	if err := vfRealStop(nodes[1]); err != nil {
		R.Violate(4, "c18-stop", "real:stop", err.Error(), nil)
	}
	if err := vfRealStop(nodes[3]); err != nil {
		R.Violate(4, "c18-stop", "real:stop", err.Error(), nil)
	}
	phase(4, "two non-seed nodes stop at once")
}
