//go:build verif

package cluster_test

import (
	"bufio"
	"fmt"
	"io"
	"os"
	"os/exec"
	"sort"
	"strings"
	"sync"
	"syscall"
	"testing"
	"time"

	"github.com/kercylan98/vivid"
	"github.com/kercylan98/vivid/internal/verifrt"
	"github.com/kercylan98/vivid/pkg/bootstrap"
	"github.com/kercylan98/vivid/pkg/log"
	"github.com/kercylan98/vivid/pkg/ves"
)

// C18 gossip-real (DESIGN §4 C18): the same fixpoint monitor as gossip-sim, over real ActorSystems with remoting and the
// cluster extension on loopback TCP, through the public API only (Cluster().GetMembers/GetView, cluster events). It anchors
// the simulator against the full stack: the knock-on effects of the transport (blocking sends, connection teardown,
// Leave during Stop) are invisible to the simulator.

func vfRealAddr() string { return verifrt.FreeAddr() }

type vfRealEvents struct {
	mu  sync.Mutex
	evs []string // "<ms> MEMBERS ..." / "<ms> LEADER ..."
	iam *bool
	t0  time.Time
}

func (e *vfRealEvents) OnReceive(ctx vivid.ActorContext) {
	switch m := ctx.Message().(type) {
	case *vivid.OnLaunch:
		ctx.EventStream().Subscribe(ctx, ves.ClusterMembersChangedEvent{})
		ctx.EventStream().Subscribe(ctx, ves.ClusterLeaderChangedEvent{})
	case ves.ClusterMembersChangedEvent:
		e.mu.Lock()
		e.evs = append(e.evs, fmt.Sprintf("%d MEMBERS n=%d +%d -%d", time.Since(e.t0).Milliseconds(), len(m.Members), m.AddedNum, m.RemovedNum))
		e.mu.Unlock()
	case ves.ClusterLeaderChangedEvent:
		e.mu.Lock()
		b := m.IAmLeader
		e.iam = &b
		e.evs = append(e.evs, fmt.Sprintf("%d LEADER %s iam=%v", time.Since(e.t0).Milliseconds(), m.LeaderAddr, m.IAmLeader))
		e.mu.Unlock()
	}
}

type vfRealNode struct {
	addr string
	sys  vivid.ActorSystem
	ev   *vfRealEvents
	up   bool
}

func vfRealStart(addr string, seeds []string, t0 time.Time, interval, timeout time.Duration) (*vfRealNode, error) {
	n := &vfRealNode{addr: addr, ev: &vfRealEvents{t0: t0}}
	n.sys = bootstrap.NewActorSystem(
		vivid.WithActorSystemLogger(log.NewSilentLogger()),
		vivid.WithActorSystemRemoting(addr),
		vivid.WithActorSystemStopTimeout(30*time.Second),
		vivid.WithActorSystemRemotingOption(
			vivid.WithActorSystemRemotingReconnectLimit(1),
			vivid.WithActorSystemRemotingClusterOption(
				vivid.WithClusterSeeds(seeds),
				vivid.WithClusterDiscoveryInterval(interval),
				vivid.WithClusterFailureDetectionTimeout(timeout),
			),
		),
	)
	if err := n.sys.Start(); err != nil {
		return nil, err
	}
	if _, err := n.sys.ActorOf(n.ev, vivid.WithActorName("vf-cluster-events")); err != nil {
		return nil, err
	}
	n.up = true
	return n, nil
}

func vfRealStop(n *vfRealNode) error {
	n.up = false
	done := make(chan error, 1)
	go func() { done <- n.sys.Stop() }()
	select {
	case err := <-done:
		return err
	case <-time.After(60 * time.Second):
		return fmt.Errorf("Stop of %s did not return within 60 s", n.addr)
	}
}

// vfRealFixpoint: every running node lists exactly the running addresses and agrees on the leader; returns "" when it holds.
func vfRealFixpoint(nodes []*vfRealNode) string {
	var want []string
	for _, n := range nodes {
		if n.up {
			want = append(want, n.addr)
		}
	}
	sort.Strings(want)
	leaders := map[string]bool{}
	for _, n := range nodes {
		if !n.up {
			continue
		}
		ms, err := n.sys.Cluster().GetMembers()
		if err != nil {
			return fmt.Sprintf("%s: GetMembers: %v", n.addr, err)
		}
		var got []string
		for _, m := range ms {
			got = append(got, m.Address)
		}
		sort.Strings(got)
		if strings.Join(got, ",") != strings.Join(want, ",") {
			return fmt.Sprintf("%s lists %v, running are %v", n.addr, got, want)
		}
		v, err := n.sys.Cluster().GetView()
		if err != nil {
			return fmt.Sprintf("%s: GetView: %v", n.addr, err)
		}
		leaders[v.LeaderAddr] = true
	}
	if len(leaders) != 1 {
		return fmt.Sprintf("leaders differ: %v", leaders)
	}
	return ""
}

func vfRealCount(nodes []*vfRealNode) (n int) {
	for _, x := range nodes {
		x.ev.mu.Lock()
		n += len(x.ev.evs)
		x.ev.mu.Unlock()
	}
	return
}

func TestVerif_gossipreal(t *testing.T) {
	R := verifrt.NewReport("gossipreal", "real ActorSystems with remoting + cluster on loopback TCP (interval 300 ms, detection timeout 3 s), public API only: (1) 4 nodes join through one seed; (2) a non-seed node is stopped (graceful Leave + Stop); (3) it is started again at the same address (fresh node id, the default); (4) a late fifth node joins. After each phase: bounded stabilisation (3 x timeout + 20 intervals), then an observation window of 2 x timeout in which every running node must list exactly the running addresses, all agree on the leader, exactly one considers itself leader and no ClusterMembersChanged/ClusterLeaderChanged event is published. A phase during which the scheduler stalled is inconclusive. non-trivial+distinct = phases whose fixpoint was reached with >= 3 running nodes")
	defer R.Flush()
	if verifrt.Mine(1) {
		vfRunCrashScenario(R) // shard 1 of 2 (with a single shard: after the first scenario)
	}
	if !verifrt.Mine(0) {
		return
	}
	const interval, timeout = 300 * time.Millisecond, 3 * time.Second
	stab := 3*timeout + 20*interval
	window := 2 * timeout
	t0 := time.Now()
	addrs := []string{vfRealAddr(), vfRealAddr(), vfRealAddr(), vfRealAddr(), vfRealAddr()}
	sort.Strings(addrs)
	seeds := []string{addrs[0]}
	var nodes []*vfRealNode
	defer func() {
		for _, n := range nodes {
			if n.up {
				_ = vfRealStop(n)
			}
		}
	}()
	dump := func() string {
		var sb strings.Builder
		for _, n := range nodes {
			n.ev.mu.Lock()
			fmt.Fprintf(&sb, "%s up=%v: %s\n", n.addr, n.up, strings.Join(n.ev.evs, " | "))
			n.ev.mu.Unlock()
		}
		return sb.String()
	}
	phase := func(idx int, name string) {
		R.Journal(idx, name)
		// stall detector
		var maxStall time.Duration
		stop := make(chan struct{})
		var wg sync.WaitGroup
		wg.Add(1)
		go func() {
			defer wg.Done()
			last := time.Now()
			for {
				select {
				case <-stop:
					return
				case <-time.After(10 * time.Millisecond):
				}
				if d := time.Since(last) - 10*time.Millisecond; d > maxStall {
					maxStall = d
				}
				last = time.Now()
			}
		}()
		// bounded stabilisation: poll for the fixpoint
		deadline := time.Now().Add(stab)
		why := vfRealFixpoint(nodes)
		for why != "" && time.Now().Before(deadline) {
			time.Sleep(100 * time.Millisecond)
			why = vfRealFixpoint(nodes)
		}
		reached := why == ""
		if reached {
			// the announcements that belong to the convergence itself are published at about the moment the views agree and
			// reach the recording actors a little later: give them a second before the quiet window starts
			time.Sleep(time.Second)
		}
		before := vfRealCount(nodes)
		var late string
		if reached {
			time.Sleep(window)
			why = vfRealFixpoint(nodes)
			if n := vfRealCount(nodes); n != before {
				late = fmt.Sprintf("%d membership / leader events were published during the observation window", n-before)
			}
		}
		close(stop)
		wg.Wait()
		R.Eval()
		iam := 0
		running := 0
		for _, n := range nodes {
			if !n.up {
				continue
			}
			running++
			// "considers itself leader": through the public view (the bootstrap announcement of a seed precedes any subscriber)
			if v, err := n.sys.Cluster().GetView(); err == nil && v.LeaderAddr == n.addr {
				iam++
			}
		}
		var viol []string
		if !reached {
			viol = append(viol, fmt.Sprintf("c18-no-fixpoint|fixpoint not reached within %v: %s", stab, why))
		} else {
			if why != "" {
				viol = append(viol, "c18-fixpoint-lost|the fixpoint was reached and lost again: "+why)
			}
			if late != "" {
				viol = append(viol, "c18-announcements-after-fixpoint|"+late)
			}
			if iam != 1 {
				viol = append(viol, fmt.Sprintf("c18-self-leaders|%d running nodes consider themselves leader", iam))
			}
		}
		if maxStall > time.Second && len(viol) > 0 {
			R.Inconcl(fmt.Sprintf("phase %q: scheduler stall of %v: %v", name, maxStall, viol))
			return
		}
		for _, v := range viol {
			kv := strings.SplitN(v, "|", 2)
			R.Violate(idx, kv[0], "real:"+name, kv[1]+"\nevents:\n"+dump(), map[string]any{"phase": name})
		}
		if reached && running >= 3 {
			R.Nontrivial(name)
		}
		R.Sample(map[string]any{"phase": name, "running": running, "fixpoint_reached": reached, "self_leaders": iam, "max_stall": maxStall.String()})
	}
	for i := 0; i < 4; i++ {
		n, err := vfRealStart(addrs[i], seeds, t0, interval, timeout)
		if err != nil {
			R.Inconcl("start: " + err.Error())
			return
		}
		nodes = append(nodes, n)
	}
	phase(0, "4 nodes join through one seed")
	if err := vfRealStop(nodes[2]); err != nil {
		R.Violate(1, "c18-stop", "real:stop", err.Error(), nil)
	}
	phase(1, "a non-seed node leaves and stops")
	n, err := vfRealStart(addrs[2], seeds, t0, interval, timeout)
	if err != nil {
		R.Inconcl("restart: " + err.Error())
		return
	}
	nodes[2] = n
	phase(2, "the stopped node starts again at the same address with a fresh node id")
	n5, err := vfRealStart(addrs[4], seeds, t0, interval, timeout)
	if err != nil {
		R.Inconcl("start 5: " + err.Error())
		return
	}
	nodes = append(nodes, n5)
	phase(3, "a late fifth node joins")
	if err := vfRealStop(nodes[1]); err != nil {
		R.Violate(4, "c18-stop", "real:stop", err.Error(), nil)
	}
	if err := vfRealStop(nodes[3]); err != nil {
		R.Violate(4, "c18-stop", "real:stop", err.Error(), nil)
	}
	phase(4, "two non-seed nodes stop at once")
}

// ---------------------------------------------------------------------------------------------------------------------
// Crash scenario (shard 1): one member runs in a CHILD PROCESS of this test binary and is killed with SIGKILL — a real
// crash: no Leave, no close handshake, the kernel resets its sockets. The child owns the smallest address and is not a
// seed, so while it lives it is the leader: its crash is a leader crash. Phases: join; crash; restart at the same address
// after the removal; crash + immediate restart (the new incarnation arrives before the old one was removed).

// TestVerif_gossiprealchild is the child's body; it does nothing unless VF_CHILD_ADDR is set (the driver never selects it).
func TestVerif_gossiprealchild(t *testing.T) {
	addr := os.Getenv("VF_CHILD_ADDR")
	if addr == "" {
		return
	}
	seeds := strings.Split(os.Getenv("VF_CHILD_SEEDS"), ",")
	n, err := vfRealStart(addr, seeds, time.Now(), 300*time.Millisecond, 3*time.Second)
	if err != nil {
		fmt.Printf("VFCHILD ERROR %v\n", err)
		os.Exit(3)
	}
	go func() { // the parent's death closes our stdin: never outlive it
		buf := make([]byte, 16)
		for {
			if _, err := os.Stdin.Read(buf); err != nil {
				os.Exit(0)
			}
		}
	}()
	for {
		var got []string
		if ms, err := n.sys.Cluster().GetMembers(); err == nil {
			for _, m := range ms {
				got = append(got, m.Address)
			}
		}
		sort.Strings(got)
		leader := ""
		if v, err := n.sys.Cluster().GetView(); err == nil {
			leader = v.LeaderAddr
		}
		fmt.Printf("VFCHILD VIEW %s LEADER %s\n", strings.Join(got, ","), leader)
		time.Sleep(100 * time.Millisecond)
	}
}

type vfRealChild struct {
	addr   string
	cmd    *exec.Cmd
	stdin  io.WriteCloser
	mu     sync.Mutex
	view   string // last "members LEADER leader" line
	viewAt time.Time
	errs   []string
	alive  bool
}

func vfRealSpawnChild(addr string, seeds []string) (*vfRealChild, error) {
	c := &vfRealChild{addr: addr, alive: true}
	c.cmd = exec.Command(os.Args[0], "-test.run", "^TestVerif_gossiprealchild$", "-test.timeout", "20m")
	c.cmd.Env = append(os.Environ(), "VF_CHILD_ADDR="+addr, "VF_CHILD_SEEDS="+strings.Join(seeds, ","), "VERIF_OUT=")
	in, err := c.cmd.StdinPipe()
	if err != nil {
		return nil, err
	}
	c.stdin = in
	out, err := c.cmd.StdoutPipe()
	if err != nil {
		return nil, err
	}
	c.cmd.Stderr = nil
	if err := c.cmd.Start(); err != nil {
		return nil, err
	}
	go func() {
		sc := bufio.NewScanner(out)
		sc.Buffer(make([]byte, 1<<20), 1<<20)
		for sc.Scan() {
			ln := sc.Text()
			c.mu.Lock()
			if strings.HasPrefix(ln, "VFCHILD VIEW ") {
				c.view = strings.TrimPrefix(ln, "VFCHILD VIEW ")
				c.viewAt = time.Now()
			} else if strings.HasPrefix(ln, "VFCHILD ERROR") || strings.HasPrefix(ln, "panic:") || strings.HasPrefix(ln, "fatal error:") {
				c.errs = append(c.errs, ln)
			}
			c.mu.Unlock()
		}
	}()
	return c, nil
}

func (c *vfRealChild) crash() {
	c.mu.Lock()
	c.alive = false
	c.mu.Unlock()
	_ = c.cmd.Process.Signal(syscall.SIGKILL)
	_, _ = c.cmd.Process.Wait()
	_ = c.stdin.Close()
}

func (c *vfRealChild) lastView() (members, leader string, age time.Duration) {
	c.mu.Lock()
	defer c.mu.Unlock()
	p := strings.SplitN(c.view, " LEADER ", 2)
	if len(p) == 2 {
		members, leader = p[0], p[1]
	}
	return members, leader, time.Since(c.viewAt)
}

// vfCrashFixpoint: like vfRealFixpoint with the child (if alive) as one more running node whose view arrives over its stdout.
func vfCrashFixpoint(nodes []*vfRealNode, child *vfRealChild) (why string, leader string) {
	var want []string
	for _, n := range nodes {
		if n.up {
			want = append(want, n.addr)
		}
	}
	if child != nil && child.alive {
		want = append(want, child.addr)
	}
	sort.Strings(want)
	wantS := strings.Join(want, ",")
	leaders := map[string]bool{}
	for _, n := range nodes {
		if !n.up {
			continue
		}
		ms, err := n.sys.Cluster().GetMembers()
		if err != nil {
			return fmt.Sprintf("%s: GetMembers: %v", n.addr, err), ""
		}
		var got []string
		for _, m := range ms {
			got = append(got, m.Address)
		}
		sort.Strings(got)
		if strings.Join(got, ",") != wantS {
			return fmt.Sprintf("%s lists %v, running are %v", n.addr, got, want), ""
		}
		v, err := n.sys.Cluster().GetView()
		if err != nil {
			return fmt.Sprintf("%s: GetView: %v", n.addr, err), ""
		}
		leaders[v.LeaderAddr] = true
		leader = v.LeaderAddr
	}
	if child != nil && child.alive {
		ms, ld, age := child.lastView()
		if age > 2*time.Second {
			return fmt.Sprintf("child %s has not reported a view for %v", child.addr, age), ""
		}
		if ms != wantS {
			return fmt.Sprintf("child %s lists [%s], running are %v", child.addr, ms, want), ""
		}
		leaders[ld] = true
	}
	if len(leaders) != 1 {
		return fmt.Sprintf("leaders differ: %v", leaders), ""
	}
	found := false
	for _, a := range want {
		if a == leader {
			found = true
		}
	}
	if !found {
		return fmt.Sprintf("the common leader %q is not a running node (%v)", leader, want), ""
	}
	return "", leader
}

func vfRunCrashScenario(R *verifrt.Report) {
	const interval, timeout = 300 * time.Millisecond, 3 * time.Second
	stab := 3*timeout + 20*interval
	window := 2 * timeout
	t0 := time.Now()
	addrs := []string{vfRealAddr(), vfRealAddr(), vfRealAddr(), vfRealAddr()}
	sort.Strings(addrs)
	childAddr := addrs[0] // smallest address: the leader while it is alive; not a seed
	seeds := []string{addrs[1]}
	var nodes []*vfRealNode
	var child *vfRealChild
	defer func() {
		if child != nil && child.alive {
			child.crash()
		}
		for _, n := range nodes {
			if n.up {
				_ = vfRealStop(n)
			}
		}
	}()
	dump := func() string {
		var sb strings.Builder
		for _, n := range nodes {
			n.ev.mu.Lock()
			fmt.Fprintf(&sb, "%s up=%v: %s\n", n.addr, n.up, strings.Join(n.ev.evs, " | "))
			n.ev.mu.Unlock()
		}
		if child != nil {
			ms, ld, age := child.lastView()
			fmt.Fprintf(&sb, "child %s alive=%v last view [%s] leader %s (%v ago) errs=%v\n", child.addr, child.alive, ms, ld, age, child.errs)
		}
		return sb.String()
	}
	phase := func(idx int, name string) {
		R.Journal(idx, name)
		var maxStall time.Duration
		stop := make(chan struct{})
		var wg sync.WaitGroup
		wg.Add(1)
		go func() {
			defer wg.Done()
			last := time.Now()
			for {
				select {
				case <-stop:
					return
				case <-time.After(10 * time.Millisecond):
				}
				if d := time.Since(last) - 10*time.Millisecond; d > maxStall {
					maxStall = d
				}
				last = time.Now()
			}
		}()
		deadline := time.Now().Add(stab)
		why, _ := vfCrashFixpoint(nodes, child)
		for why != "" && time.Now().Before(deadline) {
			time.Sleep(100 * time.Millisecond)
			why, _ = vfCrashFixpoint(nodes, child)
		}
		reached := why == ""
		if reached {
			time.Sleep(time.Second) // see the first scenario: announcements of the convergence itself are still in flight
		}
		before := vfRealCount(nodes)
		var late, leader string
		if reached {
			time.Sleep(window)
			why, leader = vfCrashFixpoint(nodes, child)
			if n := vfRealCount(nodes); n != before {
				late = fmt.Sprintf("%d membership / leader events were published during the observation window", n-before)
			}
		}
		close(stop)
		wg.Wait()
		R.Eval()
		iam, running := 0, 0
		for _, n := range nodes {
			if !n.up {
				continue
			}
			running++
			if v, err := n.sys.Cluster().GetView(); err == nil && v.LeaderAddr == n.addr {
				iam++
			}
		}
		if child != nil && child.alive {
			running++
			if _, ld, _ := child.lastView(); ld == child.addr {
				iam++
			}
		}
		var viol []string
		if !reached {
			viol = append(viol, fmt.Sprintf("c18-no-fixpoint|fixpoint not reached within %v: %s", stab, why))
		} else {
			if why != "" {
				viol = append(viol, "c18-fixpoint-lost|the fixpoint was reached and lost again: "+why)
			}
			if late != "" {
				viol = append(viol, "c18-announcements-after-fixpoint|"+late)
			}
			if iam != 1 {
				viol = append(viol, fmt.Sprintf("c18-self-leaders|%d running nodes consider themselves leader (common leader %s)", iam, leader))
			}
		}
		if child != nil && len(child.errs) > 0 {
			R.Inconcl(fmt.Sprintf("phase %q: child process reported %v", name, child.errs))
			return
		}
		if maxStall > time.Second && len(viol) > 0 {
			R.Inconcl(fmt.Sprintf("phase %q: scheduler stall of %v: %v", name, maxStall, viol))
			return
		}
		for _, v := range viol {
			kv := strings.SplitN(v, "|", 2)
			R.Violate(idx, kv[0], "realcrash:"+name, kv[1]+"\nevents:\n"+dump(), map[string]any{"phase": name})
		}
		if reached && running >= 3 {
			R.Nontrivial("crash:" + name)
		}
		R.Sample(map[string]any{"phase": name, "running": running, "fixpoint_reached": reached, "self_leaders": iam, "leader": leader, "max_stall": maxStall.String()})
	}
	for i := 1; i < 4; i++ {
		n, err := vfRealStart(addrs[i], seeds, t0, interval, timeout)
		if err != nil {
			R.Inconcl("start: " + err.Error())
			return
		}
		nodes = append(nodes, n)
	}
	var err error
	if child, err = vfRealSpawnChild(childAddr, seeds); err != nil {
		R.Inconcl("child: " + err.Error())
		return
	}
	phase(10, "3 nodes + a child process (smallest address, leader) join through one seed")
	child.crash()
	R.Obs("crashes_sigkill", 1)
	phase(11, "the leader's process is killed with SIGKILL (no Leave, sockets reset)")
	if child, err = vfRealSpawnChild(childAddr, seeds); err != nil {
		R.Inconcl("child: " + err.Error())
		return
	}
	phase(12, "a new process starts at the crashed address after the removal (fresh node id)")
	child.crash()
	R.Obs("crashes_sigkill", 1)
	if child, err = vfRealSpawnChild(childAddr, seeds); err != nil {
		R.Inconcl("child: " + err.Error())
		return
	}
	phase(13, "SIGKILL and immediate restart at the same address: the new incarnation arrives before the old one is removed")
}
