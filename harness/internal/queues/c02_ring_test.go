//go:build verif

package queues

import (
	"fmt"
	"runtime"
	"sync"
	"sync/atomic"
	"testing"
	"time"

	"github.com/anishathalye/porcupine"
	"github.com/kercylan98/vivid/internal/verifrt"
)

// C02 (a) ring-ref: RingQueue in lock-step with a slice FIFO; (b) ring-lin: porcupine on MPSC histories.

func TestVerif_ringref(t *testing.T) {
	R := verifrt.NewReport("ringref", "exhaustive boundary grid: initial size {1,2,3,4,8,256} x head offset [0,2s+2) x burst [0,4s+3] (every growth boundary with every wrap position), then PRNG push/pop/PopMany walks crossing every doubling up to 2^17, each compared step by step with a slice FIFO. non-trivial+distinct = distinct (size,offset,burst) cells whose burst forced at least one growth, plus distinct walks")
	defer R.Flush()
	bad := func(idx int, kind, f string, a ...any) { R.Violate(idx, kind, "RingQueue", fmt.Sprintf(f, a...), nil) }
	idx := 0
	for _, size := range []int64{1, 2, 3, 4, 8, 256} {
		maxOff, maxBurst := 2*size+2, 4*size+3
		if size == 256 {
			maxOff, maxBurst = 2*size+2, 2*size+3
		}
		offStep := int64(1)
		if size == 256 {
			offStep = 37
		}
		for off := int64(0); off < maxOff; off += offStep {
			for burst := int64(0); burst <= maxBurst; burst++ {
				if size == 256 && burst < 250 && burst%50 != 0 {
					continue
				}
				idx++
				R.Eval()
				q := New(size)
				var ref []int
				id := 0
				ok := true
				for i := int64(0); i < off && ok; i++ {
					id++
					q.Push(id)
					v, got := q.Pop()
					if !got || v.(int) != id {
						bad(idx, "fifo-order", "size=%d off=%d: pop after single push gave %v,%v want %d", size, off, v, got, id)
						ok = false
					}
				}
				for i := int64(0); i < burst; i++ {
					id++
					q.Push(id)
					ref = append(ref, id)
					if q.Length() != int64(len(ref)) {
						bad(idx, "length", "size=%d off=%d burst=%d: Length=%d want %d", size, off, burst, q.Length(), len(ref))
						ok = false
						break
					}
				}
				for len(ref) > 0 && ok {
					v, got := q.Pop()
					if !got || v == nil || v.(int) != ref[0] {
						bad(idx, "fifo-order", "size=%d off=%d burst=%d: pop gave %v,%v want %d", size, off, burst, v, got, ref[0])
						ok = false
					}
					ref = ref[1:]
				}
				if ok {
					if v, got := q.Pop(); got {
						bad(idx, "phantom-element", "size=%d off=%d burst=%d: pop on empty gave %v", size, off, burst, v)
					}
				}
				if burst >= size {
					R.Nontrivial(fmt.Sprintf("g:%d:%d:%d", size, off, burst))
				}
				if idx%997 == 0 {
					R.Sample(map[string]any{"initial_size": size, "head_offset": off, "burst": burst})
				}
			}
		}
	}
	// PRNG walks
	walks, steps := 200, 5000
	big := 3
	if verifrt.Thorough() {
		walks, big = 3000, 40
	}
	for c := 0; c < walks+big; c++ {
		idx++
		R.Eval()
		rng := verifrt.NewRand(verifrt.CaseSeed("ringref-walk", c))
		q := New(int64(1 + rng.Intn(5)))
		var ref []int
		id := 0
		pushPct := 55
		n := steps
		if c >= walks { // long, push-heavy: crosses every doubling up to 2^17
			pushPct, n = 70, 400000
		}
		maxLen := 0
		for s := 0; s < n; s++ {
			r := rng.Intn(100)
			switch {
			case r < pushPct:
				id++
				q.Push(id)
				ref = append(ref, id)
			case r < 97:
				v, ok := q.Pop()
				if len(ref) == 0 {
					if ok {
						bad(idx, "phantom-element", "walk %d step %d: pop on empty gave %v", c, s, v)
					}
				} else {
					if !ok || v == nil || v.(int) != ref[0] {
						bad(idx, "fifo-order", "walk %d step %d: pop gave %v,%v want %d (len %d)", c, s, v, ok, ref[0], len(ref))
						s = n
					}
					ref = ref[1:]
				}
			default:
				k := int64(rng.Intn(6))
				vs, ok := q.PopMany(k)
				if len(ref) == 0 {
					if ok && len(vs) > 0 {
						bad(idx, "phantom-element", "walk %d step %d: PopMany on empty gave %v", c, s, vs)
					}
				} else {
					want := int(k)
					if want > len(ref) {
						want = len(ref)
					}
					if !ok || len(vs) != want {
						bad(idx, "fifo-order", "walk %d step %d: PopMany(%d) gave %d elems want %d", c, s, k, len(vs), want)
						s = n
					} else {
						for i, v := range vs {
							if v == nil || v.(int) != ref[i] {
								bad(idx, "fifo-order", "walk %d step %d: PopMany elem %d = %v want %d", c, s, i, v, ref[i])
								s = n
								break
							}
						}
					}
					ref = ref[want:]
				}
			}
			if len(ref) > maxLen {
				maxLen = len(ref)
			}
			if s < n && q.Length() != int64(len(ref)) {
				bad(idx, "length", "walk %d step %d: Length=%d want %d", c, s, q.Length(), len(ref))
				break
			}
		}
		R.ObsMax("max:queue_length_reached", int64(maxLen))
		R.Nontrivial(fmt.Sprintf("w:%d:%d", c, maxLen))
	}
}

type vfQIn struct {
	Push bool
	V    int
}
type vfQOut struct {
	V  int
	Ok bool
}

var vfQueueModel = porcupine.Model{
	Init: func() any { return []int(nil) },
	Step: func(st, in, out any) (bool, any) {
		s := st.([]int)
		i := in.(vfQIn)
		if i.Push {
			return true, append(append([]int(nil), s...), i.V)
		}
		o := out.(vfQOut)
		if len(s) == 0 {
			return !o.Ok, s
		}
		if !o.Ok {
			return false, s
		}
		return o.V == s[0], s[1:]
	},
	Equal: func(a, b any) bool {
		x, y := a.([]int), b.([]int)
		if len(x) != len(y) {
			return false
		}
		for i := range x {
			if x[i] != y[i] {
				return false
			}
		}
		return true
	},
	DescribeOperation: func(in, out any) string {
		i := in.(vfQIn)
		if i.Push {
			return fmt.Sprintf("push(%d)", i.V)
		}
		o := out.(vfQOut)
		return fmt.Sprintf("pop()->%d,%v", o.V, o.Ok)
	},
}

func TestVerif_ringlin(t *testing.T) {
	R := verifrt.NewReport("ringlin", "free-running MPSC histories (2-3 producers x 2-4 pushes, exactly one consumer = the queue's contract), initial size 1-4 so growth happens inside the history, unique pushed values; each history checked by porcupine against a sequential FIFO model. non-trivial+distinct = distinct histories (by the sequence of pop results) in which at least one pop overlapped a push in time")
	defer R.Flush()
	n := verifrt.EnvInt("VERIF_N", 20000)
	if verifrt.Thorough() {
		n = 400000
	}
	for ci := 0; ci < n; ci++ {
		if !verifrt.Mine(ci) {
			continue
		}
		if only := verifrt.EnvInt("VERIF_CASE", -1); only >= 0 && only != ci {
			continue
		}
		rng := verifrt.NewRand(verifrt.CaseSeed("ringlin", ci))
		R.Journal(ci, "ringlin")
		// small histories: the FIFO model has one state per push order, so porcupine's search is
		// exponential in the number of simultaneously pending pushes; <=12 pushes keeps it exact and fast.
		np := 2 + rng.Intn(2)
		per := 2 + rng.Intn(3)
		pops := np*per + rng.Intn(3)
		q := New(int64(1 + rng.Intn(4)))
		var clock atomic.Int64
		var mu sync.Mutex
		var ops []porcupine.Operation
		var wg sync.WaitGroup
		var start atomic.Bool
		yield := make([]int, np+1)
		for i := range yield {
			yield[i] = rng.Intn(4)
		}
		for p := 0; p < np; p++ {
			wg.Add(1)
			go func(p int) {
				defer wg.Done()
				for !start.Load() {
				}
				for i := 0; i < per; i++ {
					v := p*1000 + i
					c := clock.Add(1)
					q.Push(v)
					r := clock.Add(1)
					mu.Lock()
					ops = append(ops, porcupine.Operation{ClientId: p, Input: vfQIn{true, v}, Call: c, Output: vfQOut{}, Return: r})
					mu.Unlock()
					if yield[p] == 0 || i%(yield[p]+1) == 0 {
						runtime.Gosched()
					}
				}
			}(p)
		}
		wg.Add(1)
		go func() {
			defer wg.Done()
			for !start.Load() {
			}
			for i := 0; i < pops; i++ {
				c := clock.Add(1)
				v, ok := q.Pop()
				r := clock.Add(1)
				o := vfQOut{Ok: ok}
				if ok {
					if iv, isInt := v.(int); isInt {
						o.V = iv
					} else {
						o.V = -1 // nil or foreign element: cannot match any pushed value
					}
				}
				mu.Lock()
				ops = append(ops, porcupine.Operation{ClientId: np, Input: vfQIn{false, 0}, Call: c, Output: o, Return: r})
				mu.Unlock()
				if yield[np] == 0 {
					runtime.Gosched()
				}
			}
		}()
		start.Store(true)
		wg.Wait()
		R.Eval()
		res, _ := porcupine.CheckOperationsVerbose(vfQueueModel, ops, 5*time.Second)
		sig := ""
		overlap := false
		var pushes []porcupine.Operation
		for _, o := range ops {
			if o.Input.(vfQIn).Push {
				pushes = append(pushes, o)
			}
		}
		for _, o := range ops {
			if !o.Input.(vfQIn).Push {
				out := o.Output.(vfQOut)
				sig += fmt.Sprintf("%d,%v;", out.V, out.Ok)
				for _, p := range pushes {
					if p.Call < o.Return && o.Call < p.Return {
						overlap = true
					}
				}
			}
		}
		switch res {
		case porcupine.Illegal:
			var desc []string
			for _, o := range ops {
				desc = append(desc, fmt.Sprintf("[%d,%d] c%d %s", o.Call, o.Return, o.ClientId, vfQueueModel.DescribeOperation(o.Input, o.Output)))
			}
			R.Violate(ci, "not-linearizable", "RingQueue", fmt.Sprintf("history of %d ops is not a linearizable FIFO: %v", len(ops), desc), desc)
		case porcupine.Unknown:
			R.Inconcl(fmt.Sprintf("case %d: porcupine timeout", ci))
		}
		if overlap {
			R.Nontrivial(sig)
			R.Obs("histories_with_overlap", 1)
		}
		R.Obs("ops", int64(len(ops)))
		if ci < 2 {
			var desc []string
			for _, o := range ops {
				desc = append(desc, fmt.Sprintf("[%d,%d] c%d %s", o.Call, o.Return, o.ClientId, vfQueueModel.DescribeOperation(o.Input, o.Output)))
			}
			R.Sample(map[string]any{"producers": np, "history": desc, "verdict": string(res)})
		}
	}
}

// ringfifo: large free-running MPSC runs checked by a polynomial-time oracle that is exact for
// unique-valued FIFO queues with one consumer (the violation patterns of Henzinger/Sezgin/Vafeiadis,
// "Aspect-oriented linearizability proofs": phantom/duplicate value, pop before push, order inversion
// w.r.t. real-time order of pushes, false-empty pop).
func TestVerif_ringfifo(t *testing.T) {
	R := verifrt.NewReport("ringfifo", "free-running runs: 2-16 producers x 200-4000 unique pushes against one concurrently popping consumer, initial ring size 1-4 (every doubling is crossed under contention); oracle = exactly-once + per-producer order + real-time order of pushes respected by pop order + no pop reports empty while a completed push is still unpopped + empty at the end. non-trivial+distinct = distinct runs (by interleaving signature of the pop sequence) where pops of different producers alternated")
	defer R.Flush()
	n := verifrt.EnvInt("VERIF_N", 300)
	if verifrt.Thorough() {
		n = 6000
	}
	type pushRec struct{ call, ret int64 }
	for ci := 0; ci < n; ci++ {
		if !verifrt.Mine(ci) {
			continue
		}
		if only := verifrt.EnvInt("VERIF_CASE", -1); only >= 0 && only != ci {
			continue
		}
		R.Journal(ci, "ringfifo")
		rng := verifrt.NewRand(verifrt.CaseSeed("ringfifo", ci))
		np := 2 + rng.Intn(15)
		per := 200 + rng.Intn(3800)
		if np*per > 20000 {
			per = 20000 / np
		}
		q := New(int64(1 + rng.Intn(4)))
		var clock atomic.Int64
		pushes := make([][]pushRec, np)
		var wg sync.WaitGroup
		var start atomic.Bool
		var done atomic.Int32
		for p := 0; p < np; p++ {
			pushes[p] = make([]pushRec, per)
			wg.Add(1)
			go func(p int) {
				defer wg.Done()
				for !start.Load() {
				}
				for i := 0; i < per; i++ {
					c := clock.Add(1)
					q.Push(p*1000000 + i)
					pushes[p][i] = pushRec{c, clock.Add(1)}
					if i%64 == p {
						runtime.Gosched()
					}
				}
				done.Add(1)
			}(p)
		}
		type popRec struct {
			call, ret int64
			v         int
			ok        bool
		}
		var pops []popRec
		wg.Add(1)
		go func() {
			defer wg.Done()
			for !start.Load() {
			}
			got := 0
			emptyAfterDone := 0
			for got < np*per && emptyAfterDone < 3 {
				allDone := done.Load() == int32(np)
				c := clock.Add(1)
				v, ok := q.Pop()
				r := clock.Add(1)
				pr := popRec{call: c, ret: r, ok: ok, v: -1}
				if ok {
					got++
					if iv, isInt := v.(int); isInt {
						pr.v = iv
					}
					pops = append(pops, pr)
				} else {
					if len(pops) == 0 || pops[len(pops)-1].ok { // keep one empty pop per gap (bounded memory)
						pops = append(pops, pr)
					} else {
						pops[len(pops)-1].ret = r // extend: consecutive empties, keep the earliest call
					}
					if allDone {
						emptyAfterDone++
					}
					runtime.Gosched()
				}
			}
		}()
		start.Store(true)
		wg.Wait()
		R.Eval()
		key := "RingQueue"
		// oracle
		popIdx := map[int]int{}
		viol := false
		maxCall := int64(-1)
		lastPer := make([]int, np)
		for i := range lastPer {
			lastPer[i] = -1
		}
		alternations, lastP := 0, -1
		for k, pr := range pops {
			if !pr.ok {
				continue
			}
			p, i := pr.v/1000000, pr.v%1000000
			if pr.v < 0 || p >= np || i >= per {
				R.Violate(ci, "phantom-element", key, fmt.Sprintf("pop #%d returned %d which was never pushed", k, pr.v), nil)
				viol = true
				break
			}
			if _, dup := popIdx[pr.v]; dup {
				R.Violate(ci, "duplicate-element", key, fmt.Sprintf("value %d popped twice (pop #%d and #%d)", pr.v, popIdx[pr.v], k), nil)
				viol = true
				break
			}
			popIdx[pr.v] = k
			if pushes[p][i].call > pr.ret {
				R.Violate(ci, "pop-before-push", key, fmt.Sprintf("value %d popped at [%d,%d] before its push was called at %d", pr.v, pr.call, pr.ret, pushes[p][i].call), nil)
				viol = true
			}
			if i <= lastPer[p] {
				R.Violate(ci, "fifo-order", key, fmt.Sprintf("producer %d: value #%d popped after #%d", p, i, lastPer[p]), nil)
				viol = true
			}
			lastPer[p] = i
			if pushes[p][i].ret < maxCall {
				R.Violate(ci, "fifo-order", key, fmt.Sprintf("value %d (push returned at %d) popped after a value whose push was only called at %d", pr.v, pushes[p][i].ret, maxCall), nil)
				viol = true
			}
			if pushes[p][i].call > maxCall {
				maxCall = pushes[p][i].call
			}
			if p != lastP {
				alternations++
				lastP = p
			}
		}
		if !viol {
			if len(popIdx) != np*per {
				R.Violate(ci, "lost-element", key, fmt.Sprintf("%d of %d pushed values never came out (queue reported empty 3 times after all producers finished; Length()=%d)", np*per-len(popIdx), np*per, q.Length()), nil)
			} else {
				// false-empty: an empty pop while a value whose push had returned before the pop's call is popped later
				// suffix minimum of push-return over later pops
				sufMin := make([]int64, len(pops)+1)
				sufMin[len(pops)] = 1 << 62
				for k := len(pops) - 1; k >= 0; k-- {
					sufMin[k] = sufMin[k+1]
					if pops[k].ok {
						p, i := pops[k].v/1000000, pops[k].v%1000000
						if pushes[p][i].ret < sufMin[k] {
							sufMin[k] = pushes[p][i].ret
						}
					}
				}
				for k, pr := range pops {
					if !pr.ok && sufMin[k+1] < pr.call {
						R.Violate(ci, "false-empty", key, fmt.Sprintf("pop #%d called at %d reported empty although a push that returned at %d was still unpopped", k, pr.call, sufMin[k+1]), nil)
						break
					}
				}
				if v, ok := q.Pop(); ok || q.Length() != 0 {
					R.Violate(ci, "phantom-element", key, fmt.Sprintf("after draining everything: Pop=%v,%v Length=%d", v, ok, q.Length()), nil)
				}
			}
		}
		R.Obs("values_transferred", int64(len(popIdx)))
		R.ObsMax("max:producer_alternations_in_one_run", int64(alternations))
		if alternations > np {
			R.Nontrivial(fmt.Sprintf("%d:%d:%d:%d", ci, np, per, alternations))
		}
		if ci < 2 {
			R.Sample(map[string]any{"producers": np, "pushes_per_producer": per, "pops_recorded": len(pops), "producer_alternations": alternations})
		}
	}
}
