//go:build verif

package actor

import (
	"fmt"
	"sort"
	"strings"
	"sync"
	"testing"
	"testing/synctest"
	"time"

	"github.com/kercylan98/vivid"
	"github.com/kercylan98/vivid/internal/verifrt"
	"github.com/kercylan98/vivid/pkg/log"
)

// C20 — schedtwins: "the same reference on different actors" names independent jobs. Two actors A and B whose identities
// are easy to confuse (same Name() under different parents, anonymous siblings, parent and child, a name that is a
// prefix of the other, names and references containing the separator characters ':' and "::") schedule a job under the
// same reference string; then something happens to A's job (Cancel, Clear, Kill, poison Kill, failure + Restart, a second
// schedule, or nothing). B's job must fire exactly as if A did not exist, and A's exactly as its own history dictates.
// Virtual time (synctest), so "exactly" is exact.

type vfTwinTick struct {
	Who string
	N   int
}

type vfTwinActor struct {
	w     *vfTwinWorld
	who   string
	name  string         // "" = anonymous (the system assigns the name)
	kids  []*vfTwinActor // spawned from OnLaunch, in every incarnation
	strat vivid.ActorOption
}

type vfTwinWorld struct {
	mu    sync.Mutex
	t0    time.Time
	fires map[string][]time.Duration // who -> instants at which its own tick arrived
	wrong []string
	refs  map[string]vivid.ActorRef
	errs  []string
}

type vfTwinCmd struct {
	Op   string // once | loop | cancel | clear | fail
	Ref  string
	D    time.Duration
	Tick *vfTwinTick
}

func (a *vfTwinActor) OnReceive(ctx vivid.ActorContext) {
	w := a.w
	switch m := ctx.Message().(type) {
	case *vivid.OnLaunch:
		w.mu.Lock()
		w.refs[a.who] = ctx.Ref()
		w.mu.Unlock()
		for _, k := range a.kids {
			opts := []vivid.ActorOption{a.strat}
			if k.name != "" {
				opts = append(opts, vivid.WithActorName(k.name))
			}
			k.strat = a.strat
			// a fresh actor value per incarnation of the parent (the old one may still be terminating)
			kk := &vfTwinActor{w: k.w, who: k.who, name: k.name, kids: k.kids, strat: a.strat}
			if _, err := ctx.ActorOf(kk, opts...); err != nil {
				w.mu.Lock()
				w.errs = append(w.errs, fmt.Sprintf("spawn %s: %v", k.who, err))
				w.mu.Unlock()
			}
		}
	case *vfTwinTick:
		w.mu.Lock()
		if m.Who != a.who {
			w.wrong = append(w.wrong, fmt.Sprintf("%s received the tick of %s at %v", a.who, m.Who, time.Since(w.t0)))
		} else {
			w.fires[a.who] = append(w.fires[a.who], time.Since(w.t0))
		}
		w.mu.Unlock()
	case *vfTwinCmd:
		var err error
		switch m.Op {
		case "once":
			err = ctx.Scheduler().Once(ctx.Ref(), m.D, m.Tick, vivid.WithSchedulerReference(m.Ref))
		case "loop":
			err = ctx.Scheduler().Loop(ctx.Ref(), m.D, m.Tick, vivid.WithSchedulerReference(m.Ref))
		case "cancel":
			err = ctx.Scheduler().Cancel(m.Ref)
		case "clear":
			ctx.Scheduler().Clear()
		case "fail":
			panic("vf-twin-fail")
		}
		if err != nil {
			w.mu.Lock()
			w.errs = append(w.errs, fmt.Sprintf("%s.%s(%s): %v", a.who, m.Op, m.Ref, err))
			w.mu.Unlock()
		}
	}
}

type vfTwinCase struct {
	Pair   string // how A and B relate
	Kind   string // once | loop
	Action string // none | cancel | clear | kill | poison | restart | cancelB-unaffected
	BFirst bool
}

func (c vfTwinCase) String() string {
	return fmt.Sprintf("pair=%s job=%s action-on-A=%s B-schedules-first=%v", c.Pair, c.Kind, c.Action, c.BFirst)
}

func vfTwinCases() []vfTwinCase {
	var cs []vfTwinCase
	for _, p := range []string{"same-name-different-parents", "anonymous-siblings", "parent-and-child", "name-prefix", "colon-in-name-and-reference", "double-colon-in-name-and-reference", "same-name-deeper-level", "same-actor-rescheduled"} {
		for _, k := range []string{"once", "loop"} {
			for _, a := range []string{"none", "cancel", "clear", "kill", "poison", "restart"} {
				for _, bf := range []bool{false, true} {
					cs = append(cs, vfTwinCase{p, k, a, bf})
				}
			}
		}
	}
	return cs
}

// vfRunTwin executes one case inside a bubble; returns violations (kind|key|detail) and a note for the evidence.
func vfRunTwin(c vfTwinCase) (viols []vfViol, note string) {
	add := func(kind, key, f string, a ...any) { viols = append(viols, vfViol{kind, key, fmt.Sprintf(f, a...)}) }
	w := &vfTwinWorld{fires: map[string][]time.Duration{}, refs: map[string]vivid.ActorRef{}}
	sys := NewSystem(vivid.WithActorSystemLogger(log.NewSilentLogger()))
	if err := sys.Start(); err != nil {
		add("harness-error", "start", "%v", err)
		return
	}
	restart := vivid.WithActorSupervisionStrategy(vivid.OneForOneStrategy(vivid.SupervisionStrategyDecisionMakerFN(func(vivid.SupervisionContext) (vivid.SupervisionDecision, string) {
		return vivid.SupervisionDecisionRestart, "vf-twin"
	})))
	mk := func(who, name string, kids ...*vfTwinActor) *vfTwinActor {
		return &vfTwinActor{w: w, who: who, name: name, kids: kids, strat: restart}
	}
	refA, refB := "tick", "tick"
	var tops []*vfTwinActor
	switch c.Pair {
	case "same-name-different-parents": // /pa/w and /pb/w
		tops = []*vfTwinActor{mk("pa", "pa", mk("A", "w")), mk("pb", "pb", mk("B", "w"))}
	case "same-name-deeper-level": // /sup/w and /sup/q/w
		tops = []*vfTwinActor{mk("sup", "sup", mk("A", "w"), mk("q", "q", mk("B", "w")))}
	case "anonymous-siblings": // two children of one parent, both without a name
		tops = []*vfTwinActor{mk("sup", "sup", mk("A", ""), mk("B", ""))}
	case "parent-and-child": // /sup/a and /sup/a/b
		tops = []*vfTwinActor{mk("sup", "sup", mk("A", "a", mk("B", "b")))}
	case "name-prefix", "same-actor-rescheduled": // /sup/a and /sup/ab
		tops = []*vfTwinActor{mk("sup", "sup", mk("A", "a"), mk("B", "ab"))}
	case "colon-in-name-and-reference": // /sup/a + "b:tick"  vs  /sup/a:b + "tick"
		tops = []*vfTwinActor{mk("sup", "sup", mk("A", "a"), mk("B", "a:b"))}
		refA, refB = "b:tick", "tick"
	case "double-colon-in-name-and-reference": // /sup/a + "b::tick"  vs  /sup/a::b + "tick"
		tops = []*vfTwinActor{mk("sup", "sup", mk("A", "a"), mk("B", "a::b"))}
		refA, refB = "b::tick", "tick"
	}
	for _, tp := range tops {
		if _, err := sys.ActorOf(tp, vivid.WithActorName(tp.name), restart); err != nil {
			add("harness-error", "spawn", "%v", err)
		}
	}
	synctest.Wait()
	w.mu.Lock()
	ra, rb := w.refs["A"], w.refs["B"]
	w.mu.Unlock()
	if ra == nil || rb == nil || len(viols) > 0 {
		add("harness-error", "spawn", "actors not launched: A=%v B=%v errs=%v", ra, rb, w.errs)
		_ = sys.Stop()
		return
	}
	note = fmt.Sprintf("A=%s(%q) B=%s(%q)", ra.GetPath(), refA, rb.GetPath(), refB)
	w.mu.Lock()
	w.t0 = time.Now()
	w.mu.Unlock()
	d := 100 * time.Millisecond
	schedule := func(r vivid.ActorRef, who, ref string) {
		sys.Tell(r, &vfTwinCmd{Op: c.Kind, Ref: ref, D: d, Tick: &vfTwinTick{Who: who}})
		synctest.Wait()
	}
	if c.BFirst {
		schedule(rb, "B", refB)
		schedule(ra, "A", refA)
	} else {
		schedule(ra, "A", refA)
		schedule(rb, "B", refB)
	}
	if c.Pair == "same-actor-rescheduled" {
		// A registers the same reference a second time while the first registration is still pending. Which of the two
		// registrations counts is not specified - but whatever is registered under the reference dies with Cancel / Clear /
		// the owner: after the action nothing may arrive at A any more
		schedule(ra, "A", refA)
	}
	// the action lands at 150 ms: after the first firing of a loop, after the firing of a once
	actAt := 150 * time.Millisecond
	if c.Kind == "once" {
		actAt = 50 * time.Millisecond // before the once fires
	}
	time.Sleep(actAt)
	synctest.Wait()
	switch c.Action {
	case "cancel":
		sys.Tell(ra, &vfTwinCmd{Op: "cancel", Ref: refA})
	case "clear":
		sys.Tell(ra, &vfTwinCmd{Op: "clear"})
	case "kill":
		sys.Kill(ra, false, "vf-twin")
	case "poison":
		sys.Kill(ra, true, "vf-twin")
	case "restart":
		sys.Tell(ra, &vfTwinCmd{Op: "fail"})
	}
	synctest.Wait()
	time.Sleep(450*time.Millisecond - actAt)
	synctest.Wait()
	// model
	var wantA, wantB []time.Duration
	if c.Kind == "once" {
		wantB = []time.Duration{d}
		if c.Action == "none" {
			wantA = []time.Duration{d}
		}
	} else {
		wantB = []time.Duration{d, 2 * d, 3 * d, 4 * d}
		wantA = []time.Duration{d}
		if c.Action == "none" {
			wantA = wantB
		}
	}
	if c.Pair == "parent-and-child" && (c.Action == "kill" || c.Action == "poison" || c.Action == "restart") {
		// B is A's child: it terminates with A (and is not re-created: the twin parent spawns it from OnLaunch again, as a new
		// incarnation without a job)
		wantB = wantB[:0]
		if c.Kind == "loop" {
			wantB = []time.Duration{d}
		}
	}
	w.mu.Lock()
	gotA, gotB := append([]time.Duration(nil), w.fires["A"]...), append([]time.Duration(nil), w.fires["B"]...)
	wrong := append([]string(nil), w.wrong...)
	errs := append([]string(nil), w.errs...)
	w.mu.Unlock()
	eq := func(a, b []time.Duration) bool {
		if len(a) != len(b) {
			return false
		}
		for i := range a {
			if a[i] != b[i] {
				return false
			}
		}
		return true
	}
	key := c.Pair + "/" + c.Action
	if !eq(gotB, wantB) {
		kind := "c20-missed-firing"
		if len(gotB) > len(wantB) {
			kind = "c20-unexpected-firing"
		}
		add(kind, key, "B (%s, reference %q) fired at %v, want %v: its job must not depend on what happens to the job A (%s) scheduled under reference %q", rb.GetPath(), refB, gotB, wantB, ra.GetPath(), refA)
	}
	if c.Pair == "same-actor-rescheduled" {
		if c.Action != "none" {
			for _, at := range gotA {
				if at > actAt {
					add("c20-unexpected-firing", key, "A (%s) registered reference %q twice and then %s at %v; a tick still arrived at %v (all ticks %v): a registration survived the action", ra.GetPath(), refA, c.Action, actAt, at, gotA)
					break
				}
			}
		}
	} else if !eq(gotA, wantA) {
		kind := "c20-missed-firing"
		if len(gotA) > len(wantA) {
			kind = "c20-unexpected-firing"
		}
		add(kind, key, "A (%s, reference %q) fired at %v, want %v (action on A at %v: %s)", ra.GetPath(), refA, gotA, wantA, actAt, c.Action)
	}
	if len(wrong) > 0 {
		add("c20-wrong-message", key, "%v", wrong)
	}
	if c.Pair == "same-actor-rescheduled" {
		// whether the second registration of a pending reference is refused is not specified
		kept := errs[:0]
		for _, e := range errs {
			if !strings.HasPrefix(e, "A.") {
				kept = append(kept, e)
			}
		}
		errs = kept
	}
	if len(errs) > 0 {
		add("c20-schedule-error", key, "%v", errs)
	}
	if err := sys.Stop(); err != nil {
		add("c07-stop-error", "schedtwins", "%v", err)
	}
	synctest.Wait()
	return
}

func TestVerif_schedtwins(t *testing.T) {
	R := verifrt.NewReport("schedtwins", "enumerated in virtual time: 8 ways in which two actors A and B are easy to confuse (same Name() under different parents, the same name one level deeper, anonymous actors, parent and child, a name that is a prefix of the other, names and references containing ':' resp. '::' such that path+separator+reference reads the same; and one actor that registers the same reference twice while the first registration is pending - nothing may fire after Cancel / Clear / its death) x {Once, Loop} scheduled by both under the same reference string x what happens to A's job {nothing, Cancel, Clear, Kill, poison Kill, failure + Restart} x who schedules first. Oracle (exact, virtual clock): B's ticks arrive exactly at the instants its own job dictates whatever happened to A's job, A's exactly up to the action, every tick at its own actor, no scheduling error. non-trivial+distinct = cases in which both actors scheduled their job")
	defer R.Flush()
	cases := vfTwinCases()
	only := verifrt.EnvInt("VERIF_CASE", -1)
	for ci, c := range cases {
		if !verifrt.Mine(ci) || (only >= 0 && only != ci) {
			continue
		}
		R.Journal(ci, c.String())
		var viols []vfViol
		var note string
		hang, stacks, pan := vfBubble(t, 60*time.Second, func() { viols, note = vfRunTwin(c) })
		R.Eval()
		if hang {
			viols = append(viols, vfViol{"c20-hang", "bubble", verifrt.Short(stacks, 20000)})
		}
		if pan != nil {
			ps := fmt.Sprint(pan)
			kind := "c20-goroutines-left"
			if !strings.Contains(ps, "deadlock") && !strings.Contains(ps, "blocked") {
				kind = "harness-panic"
			}
			viols = append(viols, vfViol{kind, "bubble", verifrt.Short(ps, 3000)})
		}
		harnessErr := false
		for _, v := range viols {
			if strings.HasPrefix(v.Kind, "harness-") {
				harnessErr = true
			}
			R.Violate(ci, v.Kind, v.Key, v.Detail+" | case: "+c.String()+" | "+note, map[string]any{"case": c.String()})
		}
		if !harnessErr && note != "" {
			R.Nontrivial(c.String())
		}
		R.Obs("pairs_"+c.Pair, 1)
		if ci%29 == 0 {
			R.Sample(map[string]any{"case": c.String(), "actors": note, "violations": len(viols)})
		}
		if hang {
			R.Flush()
			t.Fatalf("hang")
		}
	}
	R.Exhaustive = true
	_ = sort.Strings
}
