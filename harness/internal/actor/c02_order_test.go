//go:build verif

package actor

import (
	"fmt"
	"strings"
	"sync"
	"testing"
	"time"

	"github.com/kercylan98/vivid"
	"github.com/kercylan98/vivid/internal/verifrt"
)

// C02 (c) order-actor: per-sender FIFO across the ring's growth boundary (initial size 256), kill ordering with a
// gate; (d) stash-model: sequential reference model of (mailbox queue, stash).

type vfOrderCase struct {
	N       int    // queued user messages
	Senders int    // concurrent senders
	Kill    string // none | immediate | poison
	// Self: the kill is issued by the actor itself (ctx.Kill(ctx.Ref(), poison)) from the handler of the message in front
	// of the queued ones, instead of from outside after them
	Self bool
}

func vfRunOrder(c vfOrderCase, res *vfCellResult) {
	w := newVfWorld()
	res.w = w
	add := func(kind, key, f string, a ...any) {
		res.viols = append(res.viols, vfViol{kind, key, fmt.Sprintf(f, a...)})
	}
	if err := w.start(); err != nil {
		add("harness-error", "start", "%v", err)
		return
	}
	ref, err := w.spawnTop(&vfSpec{Name: "R"})
	if err != nil {
		add("harness-error", "spawn", "%v", err)
		return
	}
	w.wait()
	gate := newVfGate()
	w.tell(ref, "actorof", &vfCmd{ID: w.newID(), Op: "gate", Arg: gate})
	<-gate.entered
	if c.Self && c.Kill != "none" {
		// first in the queue behind the gate: the message on which the actor kills itself
		w.tell(ref, "actorof", &vfCmd{ID: w.newID(), Op: "killself", Arg: c.Kill == "poison"})
	}
	// senders enqueue at the same instant, each its own sequence
	per := make([][]int, c.Senders)
	var wg sync.WaitGroup
	var mu sync.Mutex
	for s := 0; s < c.Senders; s++ {
		cnt := c.N / c.Senders
		if s < c.N%c.Senders {
			cnt++
		}
		wg.Add(1)
		go func(s, cnt int) {
			defer wg.Done()
			for k := 0; k < cnt; k++ {
				cmd := &vfCmd{ID: w.newID(), Op: "noop", Sender: s, Seq: k + 1}
				mu.Lock()
				per[s] = append(per[s], cmd.ID)
				mu.Unlock()
				w.tell(ref, "actorof", cmd)
			}
		}(s, cnt)
	}
	wg.Wait()
	w.wait()
	switch {
	case c.Self:
	case c.Kill == "immediate":
		w.sys.Kill(ref, false, "vf-order")
	case c.Kill == "poison":
		w.sys.Kill(ref, true, "vf-order")
	}
	w.wait()
	close(gate.release)
	w.settle(time.Second)
	log := w.snapshot()
	seqOf := map[int][2]int{}
	for s := range per {
		for k, id := range per[s] {
			seqOf[id] = [2]int{s, k + 1}
		}
	}
	last := make([]int, c.Senders)
	processed := 0
	dl := map[int]int{}
	var killT int64 = -1
	var firstUserAfterGate int64 = -1
	for _, e := range log {
		if e.Kind == "recv" && e.Path == "/R" && e.Msg == "U" {
			if sq, ok := seqOf[e.ID]; ok {
				processed++
				if firstUserAfterGate < 0 {
					firstUserAfterGate = e.T
				}
				if sq[1] != last[sq[0]]+1 {
					add("order-per-sender", fmt.Sprintf("n=%d", c.N), "sender %d: message seq %d handled after seq %d (queue length %d, %d senders)", sq[0], sq[1], last[sq[0]], c.N, c.Senders)
				}
				last[sq[0]] = sq[1]
				if killT >= 0 && c.Kill == "poison" {
					add("order-poison-kill-overtook", fmt.Sprintf("n=%d", c.N), "user message seq %d of sender %d handled after OnKill although it was enqueued before the poison kill", sq[1], sq[0])
				}
			}
		}
		if e.Kind == "recv" && e.Path == "/R" && e.Msg == "K" && killT < 0 {
			killT = e.T
		}
		if e.Kind == "obs" && e.Msg == "dl:U" {
			if _, ok := seqOf[e.ID]; ok {
				dl[e.ID]++
			}
		}
	}
	switch c.Kill {
	case "none":
		if processed != c.N {
			add("order-message-lost", fmt.Sprintf("n=%d", c.N), "%d of %d queued messages handled", processed, c.N)
		}
	case "poison":
		if processed != c.N {
			add("order-poison-kill-overtook", fmt.Sprintf("n=%d", c.N), "poison kill enqueued after %d user messages, but only %d were handled before the actor died (dead-lettered: %d)", c.N, processed, len(dl))
		}
		if killT < 0 {
			add("order-kill-not-seen", "poison", "behaviour never saw OnKill")
		}
	case "immediate":
		if processed != 0 {
			add("order-immediate-kill-did-not-overtake", fmt.Sprintf("n=%d", c.N), "immediate kill was enqueued while %d user messages were waiting; %d of them were still handled before OnKill took effect", c.N, processed)
		}
		if killT < 0 {
			add("order-kill-not-seen", "immediate", "behaviour never saw OnKill")
		}
		for s := range per {
			for _, id := range per[s] {
				if dl[id] != 1 {
					add("order-overtaken-mail-not-dead-lettered", fmt.Sprintf("n=%d", c.N), "message #%d overtaken by the immediate kill was dead-lettered %d times (want 1)", id, dl[id])
					break
				}
			}
		}
	}
	res.viols = append(res.viols, w.oracleOverlap()...)
	res.viols = append(res.viols, w.oracleLifecycle()...)
	res.sig = fmt.Sprintf("%d/%d/%s/self=%v processed=%d dl=%d", c.N, c.Senders, c.Kill, c.Self, processed, len(dl))
	if err := w.stop(); err != nil {
		add("c07-stop-error", "order", "%v", err)
	}
}

func TestVerif_orderactor(t *testing.T) {
	R := verifrt.NewReport("orderactor", "enumerated: queued messages n in {0,1,2,3,255,256,257,258,511,512,513,600,1100} (the mailbox ring starts at 256 and doubles) x senders {1,2,3,8} x {no kill, immediate kill, poison kill; the kill issued from outside after the queued messages, or by the actor itself from the handler of the message in front of them}; the actor is held inside a handler (gate) while the senders enqueue at one virtual instant and the kill is enqueued after them, then released; monitors: per-sender sequence strictly consecutive, immediate kill seen before any queued message and each of them dead-lettered once, poison kill seen after all of them. non-trivial+distinct = distinct (n, senders, kill) with n >= 2")
	defer R.Flush()
	var cases []vfOrderCase
	for _, n := range []int{0, 1, 2, 3, 255, 256, 257, 258, 511, 512, 513, 600, 1100} {
		for _, s := range []int{1, 2, 3, 8} {
			for _, k := range []string{"none", "immediate", "poison"} {
				cases = append(cases, vfOrderCase{N: n, Senders: s, Kill: k})
				if k != "none" && (s == 1 || s == 3) {
					cases = append(cases, vfOrderCase{N: n, Senders: s, Kill: k, Self: true})
				}
			}
		}
	}
	R.Exhaustive = true
	only := verifrt.EnvInt("VERIF_CASE", -1)
	for ci, c := range cases {
		if !verifrt.Mine(ci) || (only >= 0 && only != ci) {
			continue
		}
		R.Journal(ci, fmt.Sprintf("%+v", c))
		res := &vfCellResult{}
		hang, stacks, pan := vfBubble(t, 60*time.Second, func() { vfRunOrder(c, res) })
		R.Eval()
		viols := res.viols
		if hang {
			viols = append(viols, vfViol{"order-hang", "bubble", verifrt.Short(stacks, 3000)})
		}
		if pan != nil {
			viols = append(viols, vfViol{"harness-panic", "bubble", verifrt.Short(fmt.Sprint(pan), 2000)})
		}
		if c.N >= 2 {
			R.Nontrivial(res.sig)
		}
		seen := map[string]bool{}
		for _, v := range viols {
			if seen[v.Kind] {
				continue
			}
			seen[v.Kind] = true
			R.Violate(ci, v.Kind, v.Key, v.Detail+fmt.Sprintf(" | case %+v", c), map[string]any{"case": fmt.Sprintf("%+v", c)})
		}
		if ci%37 == 0 {
			R.Sample(map[string]any{"case": fmt.Sprintf("%+v", c), "observed": res.sig})
		}
		if hang {
			R.Flush()
			t.Fatalf("hang")
		}
	}
}

// ---- stash model -------------------------------------------------------------------------------

type vfStashStep struct {
	Op string // noop | stash | unstash | unstashn
	K  int
}

func vfStashModel(script []vfStashStep) (order []int, counts []int, finalStash []int) {
	type m struct {
		id int
		st vfStashStep
	}
	var q, s []m
	for i, st := range script {
		q = append(q, m{i + 1, st})
	}
	guard := 0
	for len(q) > 0 && guard < 100000 {
		guard++
		x := q[0]
		q = q[1:]
		order = append(order, x.id)
		if x.st.Op == "panic" {
			// the behaviour fails on this message; the supervisor restarts (or resumes) the actor: the message is consumed, the
			// queue behind it and the stash are untouched (no StashCount sample: the handler did not return)
			continue
		}
		switch x.st.Op {
		case "stash":
			s = append(s, x)
		case "unstash":
			if len(s) > 0 {
				q = append(q, s[0])
				s = s[1:]
			}
		case "unstashn":
			k := x.st.K
			if k > len(s) {
				k = len(s)
			}
			if k < 0 {
				k = 0
			}
			q = append(q, s[:k]...)
			s = s[k:]
		}
		counts = append(counts, len(s))
	}
	for _, x := range s {
		finalStash = append(finalStash, x.id)
	}
	return
}

func vfRunStash(script []vfStashStep, res *vfCellResult) {
	w := newVfWorld()
	res.w = w
	add := func(kind, key, f string, a ...any) {
		res.viols = append(res.viols, vfViol{kind, key, fmt.Sprintf(f, a...)})
	}
	if err := w.start(); err != nil {
		add("harness-error", "start", "%v", err)
		return
	}
	// S lives under a supervisor whose decision for a failure is chosen by the script (Restart / graceful Restart / Resume)
	dec := vivid.SupervisionDecisionRestart
	for _, st := range script {
		if st.Op == "panic" {
			dec = []vivid.SupervisionDecision{vivid.SupervisionDecisionRestart, vivid.SupervisionDecisionGracefulRestart, vivid.SupervisionDecisionResume}[st.K%3]
		}
	}
	if _, err := w.spawnTop(&vfSpec{Name: "sup", Strategy: vfStratOne, Decisions: []vivid.SupervisionDecision{dec}, Children: []*vfSpec{{Name: "S", TrackStash: true, Provider: len(script)%2 == 0}}}); err != nil {
		add("harness-error", "spawn", "%v", err)
		return
	}
	w.wait()
	ref := w.ref("S")
	if ref == nil {
		add("harness-error", "spawn", "S not spawned")
		return
	}
	gate := newVfGate()
	w.tell(ref, "actorof", &vfCmd{ID: 100000, Op: "gate", Arg: gate})
	<-gate.entered
	for i, st := range script {
		cmd := &vfCmd{ID: i + 1, Op: st.Op}
		if st.Op == "unstashn" {
			cmd.Arg = st.K
		}
		w.tell(ref, "actorof", cmd)
	}
	w.wait()
	close(gate.release)
	w.settle(100 * time.Millisecond)
	w.settle(time.Second)
	wantOrder, wantCounts, wantStash := vfStashModel(script)
	var gotOrder, gotCounts []int
	for _, e := range w.snapshot() {
		if e.Kind == "recv" && e.Path == "/sup/S" && e.Msg == "U" && e.ID != 100000 {
			gotOrder = append(gotOrder, e.ID)
		}
		if e.Kind == "api" && e.Path == "/sup/S" && e.Msg == "stashcount" {
			gotCounts = append(gotCounts, e.ID)
		}
	}
	if len(gotCounts) > 0 {
		gotCounts = gotCounts[1:] // the first entry belongs to the gate message
	}
	if fmt.Sprint(gotOrder) != fmt.Sprint(wantOrder) {
		add("order-stash-sequence", "Stash/Unstash", "behaviour saw %v, the sequential model of (mailbox queue, stash) predicts %v", gotOrder, wantOrder)
	} else if fmt.Sprint(gotCounts) != fmt.Sprint(wantCounts) {
		add("order-stash-count", "StashCount", "StashCount after each message was %v, model predicts %v", gotCounts, wantCounts)
	}
	var gotStash []int
	if cx := w.ctxOf("/sup/S"); cx != nil {
		for _, e := range cx.stash {
			if cmd, ok := e.Message().(*vfCmd); ok {
				gotStash = append(gotStash, cmd.ID)
			}
		}
	}
	if fmt.Sprint(gotStash) != fmt.Sprint(wantStash) {
		add("order-stash-content", "stash", "final stash holds %v, model predicts %v", gotStash, wantStash)
	}
	// C03: a message that stashed itself has three legitimate fates afterwards - still in the stash, handled a second time
	// after an Unstash, or dead-lettered; gone without a trace is a loss
	seenN, inStash, dls := map[int]int{}, map[int]bool{}, map[int]int{}
	for _, id := range gotOrder {
		seenN[id]++
	}
	for _, id := range gotStash {
		inStash[id] = true
	}
	for _, e := range w.snapshot() {
		if e.Kind == "obs" && e.Msg == "dl:U" {
			dls[e.ID]++
		}
	}
	for i, st := range script {
		id := i + 1
		if st.Op == "stash" && seenN[id] == 1 && !inStash[id] && dls[id] == 0 {
			add("c03-stashed-message-lost", "stash", "message #%d stashed itself and is neither in the stash, nor handled again, nor dead-lettered (final stash %v)", id, gotStash)
			break
		}
	}
	res.viols = append(res.viols, w.oracleOverlap()...)
	res.sig = fmt.Sprint(wantOrder)
	res.trace = fmt.Sprintf("got=%v counts=%v stash=%v", gotOrder, gotCounts, gotStash)
	if err := w.stop(); err != nil {
		add("c07-stop-error", "stash", "%v", err)
	}
}

func TestVerif_stashmodel(t *testing.T) {
	R := verifrt.NewReport("stashmodel", "PRNG single-sender scripts of <= 40 steps from {plain message, message that stashes itself, Unstash(), Unstash(k) with k in -1..6; in 40 % of the scripts also up to two messages on which the behaviour panics, answered by the supervisor with Restart / graceful Restart / Resume: the stash and the queue behind the failing message survive}, all enqueued while the actor is held in a gate, then released; the sequence of messages the behaviour sees, StashCount after every message and the final stash content must equal a 25-line sequential model of (mailbox queue, stash). non-trivial+distinct = distinct predicted sequences in which at least one message is seen twice (stashed and returned)")
	defer R.Flush()
	n := verifrt.EnvInt("VERIF_N", 5000)
	if verifrt.Thorough() {
		n = 100000
	}
	only := verifrt.EnvInt("VERIF_CASE", -1)
	for ci := 0; ci < n; ci++ {
		if !verifrt.Mine(ci) || (only >= 0 && only != ci) {
			continue
		}
		rng := verifrt.NewRand(verifrt.CaseSeed("stashmodel", ci))
		steps := 1 + rng.Intn(40)
		script := make([]vfStashStep, steps)
		panics := 0
		withFailures := rng.Intn(100) < 40
		pdec := rng.Intn(3)
		for i := range script {
			if withFailures && panics < 2 && rng.Intn(100) < 12 {
				panics++
				script[i] = vfStashStep{Op: "panic", K: pdec}
				continue
			}
			switch r := rng.Intn(100); {
			case r < 35:
				script[i] = vfStashStep{Op: "noop"}
			case r < 65:
				script[i] = vfStashStep{Op: "stash"}
			case r < 85:
				script[i] = vfStashStep{Op: "unstash"}
			default:
				script[i] = vfStashStep{Op: "unstashn", K: rng.Intn(8) - 1}
			}
		}
		var ss []string
		for _, s := range script {
			if s.Op == "unstashn" {
				ss = append(ss, fmt.Sprintf("unstash(%d)", s.K))
			} else {
				ss = append(ss, s.Op)
			}
		}
		desc := strings.Join(ss, " ")
		R.Journal(ci, desc)
		res := &vfCellResult{}
		hang, stacks, pan := vfBubble(t, 60*time.Second, func() { vfRunStash(script, res) })
		R.Eval()
		viols := res.viols
		if hang {
			viols = append(viols, vfViol{"order-hang", "bubble", verifrt.Short(stacks, 3000)})
		}
		if pan != nil {
			viols = append(viols, vfViol{"harness-panic", "bubble", verifrt.Short(fmt.Sprint(pan), 2000)})
		}
		wo, _, _ := vfStashModel(script)
		if len(wo) > len(script) {
			R.Nontrivial(res.sig)
		}
		seen := map[string]bool{}
		for _, v := range viols {
			if seen[v.Kind] {
				continue
			}
			seen[v.Kind] = true
			R.Violate(ci, v.Kind, v.Key, v.Detail+" | script: "+desc, map[string]any{"script": desc})
		}
		if ci < 3 {
			R.Sample(map[string]any{"script": desc, "model_sequence": res.sig, "observed": res.trace})
		}
		if hang {
			R.Flush()
			t.Fatalf("hang")
		}
	}
}
