//go:build verif

package actor

import (
	"encoding/binary"
	"fmt"
	"io"
	"net"
	"strings"
	"sync"
	"sync/atomic"
	"testing"
	"time"

	"github.com/kercylan98/vivid"
	"github.com/kercylan98/vivid/internal/mailbox"
	"github.com/kercylan98/vivid/internal/messages"
	"github.com/kercylan98/vivid/internal/remoting/serialize"
	"github.com/kercylan98/vivid/internal/verifrt"
)

// C14 — remoting under connection faults (DESIGN §4 C14).

type vfFaultCase struct {
	Kind  string // cut | refuse | inject | oversize | restart | blocks
	K     int    // cut: byte offset
	Limit int    // reconnect limit
}

func (c vfFaultCase) String() string {
	return fmt.Sprintf("%s k=%d limit=%d", c.Kind, c.K, c.Limit)
}

type vfFaultOut struct {
	viols []vfViol
	info  string
	inc   string
}

func (o *vfFaultOut) add(kind, key, f string, a ...any) {
	for _, v := range o.viols {
		if v.Kind == kind {
			return
		}
	}
	o.viols = append(o.viols, vfViol{kind, key, fmt.Sprintf(f, a...)})
}

// subsequence monitor: what arrived must be a strictly increasing, duplicate-free, uncorrupted subsequence of 1..n
func vfCheckSubsequence(got []vfRecv, sender, n int, o *vfFaultOut) (seqs []int) {
	last := 0
	for _, g := range got {
		if g.Sender != sender {
			continue
		}
		seqs = append(seqs, g.Seq)
		if !g.SumOK {
			o.add("c14-corrupted", "payload", "sender %d seq %d arrived corrupted", sender, g.Seq)
		}
		if g.Seq < 1 || g.Seq > n {
			o.add("c14-never-sent", "sequence", "sender %d: seq %d was never sent", sender, g.Seq)
		}
		if g.Seq == last {
			o.add("c14-duplicated", "sequence", "sender %d: seq %d delivered twice", sender, g.Seq)
		} else if g.Seq < last {
			o.add("c14-reordered", "sequence", "sender %d: seq %d after seq %d", sender, g.Seq, last)
		}
		if g.Seq > last {
			last = g.Seq
		}
	}
	return
}

func vfFaultPair(seed uint64, limit int) (a, b *vfNode, px *vfProxy, err error) {
	bindB := vfFreeAddr()
	px, err = vfNewProxy(bindB, seed)
	if err != nil {
		return
	}
	addrA := vfFreeAddr()
	opt := vivid.WithActorSystemRemotingOption(vivid.WithActorSystemRemotingReconnectLimit(limit))
	if a, err = vfStartNode(addrA, addrA, opt); err != nil {
		return
	}
	b, err = vfStartNode(bindB, px.addr, opt)
	return
}

func vfRunCut(c vfFaultCase, seed uint64) (o vfFaultOut) {
	stall := vfStartStall()
	a, b, px, err := vfFaultPair(seed, c.Limit)
	if err != nil {
		o.inc = err.Error()
		return
	}
	defer px.close()
	toB := b.remoteSink(a)
	px.cutAfter.Store(int64(c.K))
	for q := 1; q <= 5; q++ {
		a.sys.Tell(toB, vfNewNetMsg(1, q, 120, false))
	}
	// wait until the cut happened (or the stream passed completely)
	deadline := time.Now().Add(5 * time.Second)
	for px.cuts.Load() == 0 && b.sink.n.Load() < 5 && time.Now().Before(deadline) {
		time.Sleep(2 * time.Millisecond)
	}
	time.Sleep(30 * time.Millisecond)
	// heal; later messages must get through again (bounded progress: within 12 sends)
	px.cutAfter.Store(-1)
	for q := 6; q <= 17; q++ {
		a.sys.Tell(toB, vfNewNetMsg(1, q, 120, false))
		time.Sleep(15 * time.Millisecond)
	}
	vfWaitCount(b.sink, 17, 800*time.Millisecond)
	maxStall := stall.end()
	seqs := vfCheckSubsequence(b.sink.snapshot(), 1, 17, &o)
	// recovery: once a post-heal message arrived, every later one must arrive; and the last one must arrive
	have := map[int]bool{}
	for _, s := range seqs {
		have[s] = true
	}
	first := 0
	for q := 6; q <= 17; q++ {
		if have[q] {
			first = q
			break
		}
	}
	if first == 0 {
		o.add("c14-no-recovery", "reconnect", "the link was healed but none of 12 later messages (15 ms apart) was delivered; received %v", seqs)
	} else {
		for q := first; q <= 17; q++ {
			if !have[q] {
				o.add("c14-loss-after-recovery", "reconnect", "after the link was healed message %d arrived but message %d, sent later over the healthy link, did not; received %v", first, q, seqs)
				break
			}
		}
	}
	// every message that did not arrive and was reported must be reported once; a message must not be both delivered and dead-lettered
	a.obs.mu.Lock()
	dl := map[string]int{}
	for _, d := range a.obs.dl {
		dl[d]++
	}
	a.obs.mu.Unlock()
	for q := 1; q <= 17; q++ {
		n := dl[fmt.Sprintf("vfNetMsg#1:%d", q)]
		if n > 1 {
			o.add("c14-dead-letter-duplicated", "dead letter", "message %d dead-lettered %d times", q, n)
		}
		if n > 0 && have[q] {
			o.add("c14-delivered-and-dead-lettered", "dead letter", "message %d was delivered and also reported as dead letter", q)
		}
	}
	o.info = fmt.Sprintf("received=%v cuts=%d proxied=%d conns=%d dead_letters=%d max_stall=%v", seqs, px.cuts.Load(), px.fwd.Load(), px.accepted.Load(), len(dl), maxStall)
	if maxStall > 500*time.Millisecond && len(o.viols) > 0 {
		o.inc = "scheduler stall " + maxStall.String() + ": " + o.viols[0].Detail
		o.viols = nil
	}
	_ = a.stop()
	_ = b.stop()
	return
}

// vfRunRefuse: the peer is unreachable for the whole retry budget: every message exactly one sender-side dead letter;
// and the D15 witnesses: the caller of Tell is found sleeping in the reconnect loop; the sending actor does not handle
// its next local message until the remote one was given up.
func vfRunRefuse(c vfFaultCase, seed uint64) (o vfFaultOut) {
	addrA := vfFreeAddr()
	dead := vfFreeAddr() // nobody listens there
	a, err := vfStartNode(addrA, addrA, vivid.WithActorSystemRemotingOption(vivid.WithActorSystemRemotingReconnectLimit(c.Limit)))
	if err != nil {
		o.inc = err.Error()
		return
	}
	ref, _ := a.sys.CreateRef(dead, "/sink")
	// sending actor: on "go" it Tells the unreachable peer, then local messages follow
	type localMsg struct{ N int }
	var order []string
	var mu sync.Mutex
	var telling atomic.Bool
	sender := vivid.ActorFN(func(ctx vivid.ActorContext) {
		switch m := ctx.Message().(type) {
		case string:
			if m == "go" {
				telling.Store(true)
				ctx.Tell(ref, vfNewNetMsg(7, 1, 10, false))
				ctx.Tell(ref, vfNewNetMsg(7, 2, 10, false))
				ctx.Tell(ref, vfNewNetMsg(7, 3, 10, false))
				telling.Store(false)
				mu.Lock()
				order = append(order, "tell-returned")
				mu.Unlock()
			}
		case *localMsg:
			mu.Lock()
			order = append(order, fmt.Sprintf("local%d", m.N))
			mu.Unlock()
		}
	})
	sref, _ := a.sys.ActorOf(sender, vivid.WithActorName("sender"))
	a.sys.Tell(sref, "go")
	for i := 1; i <= 3; i++ {
		a.sys.Tell(sref, &localMsg{i})
	}
	// M-gor: while the Tell is in progress, is the caller's goroutine sleeping inside the reconnect loop?
	blockedStack := ""
	tEnd := time.Now().Add(8 * time.Second)
	for time.Now().Before(tEnd) {
		if telling.Load() {
			for _, g := range vfGoroutinesIn("utils.(*ExponentialBackoff).Try") {
				if strings.Contains(g, "remoting.(*Mailbox).Enqueue") && strings.Contains(g, "time.Sleep") && strings.Contains(g, "(*Context).Tell") {
					blockedStack = g
				}
			}
			if blockedStack != "" {
				break
			}
		}
		mu.Lock()
		done := len(order) >= 4
		mu.Unlock()
		if done {
			break
		}
		time.Sleep(time.Millisecond)
	}
	// wait for completion (budget: limit retries with 100 ms..3 s backoff)
	tEnd = time.Now().Add(30 * time.Second)
	for time.Now().Before(tEnd) {
		mu.Lock()
		done := len(order) >= 4
		mu.Unlock()
		if done {
			break
		}
		time.Sleep(5 * time.Millisecond)
	}
	// the dead letter follows once the retry budget is used up (it no longer has to precede the return of Tell)
	countDL := func() (per [4]int, n, cf int) {
		a.obs.mu.Lock()
		defer a.obs.mu.Unlock()
		for _, d := range a.obs.dl {
			for q := 1; q <= 3; q++ {
				if d == fmt.Sprintf("vfNetMsg#7:%d", q) {
					per[q]++
					n++
				}
			}
		}
		return per, n, a.obs.connFail
	}
	for tEnd = time.Now().Add(40 * time.Second); time.Now().Before(tEnd); time.Sleep(10 * time.Millisecond) {
		if _, n, _ := countDL(); n >= 3 {
			break
		}
	}
	time.Sleep(300 * time.Millisecond)
	per, ndl, connFail := countDL()
	if per[1] != 1 || per[2] != 1 || per[3] != 1 {
		o.add("c14-dead-letter-count", "unreachable", "3 messages to a peer that was unreachable for the whole retry budget (limit %d) produced %v dead letters on the sender, want exactly 1 each (connection-failed events: %d)", c.Limit, per[1:], connFail)
	}
	// the actor must have gone on with its mailbox while the delivery was being retried: with at least one retry
	// (>= 100 ms backoff) the three local messages are handled long before the first dead letter
	mu.Lock()
	localsDone := len(order) >= 4
	mu.Unlock()
	if c.Limit > 0 && !localsDone {
		o.add("c14-actor-stalled-during-retry", "mailbox", "the sending actor had not handled its 3 local messages when the remote messages were given up")
	}
	if c.Limit > 0 { // with retries there is a sleep the caller can be caught in
		if blockedStack != "" {
			o.add("c14-tell-blocks-caller", "remoting.(*Mailbox).Enqueue→ExponentialBackoff.Try→time.Sleep", "during Tell to an unreachable peer the calling actor's goroutine sleeps in the reconnect loop:\n%s", verifrt.Short(blockedStack, 1800))
		}
		mu.Lock()
		ord := strings.Join(order, ",")
		mu.Unlock()
		if !strings.HasPrefix(ord, "tell-returned") && ord != "" {
			o.add("c14-harness", "order", "unexpected order %s", ord)
		}
	}
	o.info = fmt.Sprintf("dead_letters=%d connection_failed_events=%d caller_found_sleeping=%v", ndl, connFail, blockedStack != "")
	_ = a.stop()
	return
}

// vfRunRefuseStorm: several goroutines keep Telling numbered messages to a peer that stays unreachable: the backlog behind a
// message that exhausts its retries is given up together with it while new messages keep arriving. Ledger: every message
// exactly one dead letter on the sender - none lost, none reported twice.
func vfRunRefuseStorm(c vfFaultCase, seed uint64) (o vfFaultOut) {
	addrA := vfFreeAddr()
	dead := vfFreeAddr()
	a, err := vfStartNode(addrA, addrA, vivid.WithActorSystemRemotingOption(vivid.WithActorSystemRemotingReconnectLimit(c.Limit)))
	if err != nil {
		o.inc = err.Error()
		return
	}
	ref, _ := a.sys.CreateRef(dead, "/sink")
	const senders, per = 4, 2500
	var wg sync.WaitGroup
	for s := 1; s <= senders; s++ {
		wg.Add(1)
		go func(s int) {
			defer wg.Done()
			for q := 1; q <= per; q++ {
				a.sys.Tell(ref, vfNewNetMsg(s, q, 8, false))
				if q%50 == 0 {
					time.Sleep(time.Millisecond)
				}
			}
		}(s)
	}
	wg.Wait()
	count := func() (n int) {
		a.obs.mu.Lock()
		defer a.obs.mu.Unlock()
		return len(a.obs.dl)
	}
	// logical completion: all dead letters are in, or nothing moved for 5 s
	last, since := count(), time.Now()
	for last < senders*per && time.Since(since) < 5*time.Second {
		time.Sleep(20 * time.Millisecond)
		if n := count(); n != last {
			last, since = n, time.Now()
		}
	}
	time.Sleep(300 * time.Millisecond)
	a.obs.mu.Lock()
	seen := map[string]int{}
	for _, d := range a.obs.dl {
		seen[d]++
	}
	a.obs.mu.Unlock()
	missing, dup := 0, 0
	ex := ""
	for s := 1; s <= senders; s++ {
		for q := 1; q <= per; q++ {
			k := fmt.Sprintf("vfNetMsg#%d:%d", s, q)
			switch n := seen[k]; {
			case n == 0:
				missing++
				if ex == "" {
					ex = k + " never reported"
				}
			case n > 1:
				dup++
				if ex == "" {
					ex = fmt.Sprintf("%s reported %d times", k, n)
				}
			}
		}
	}
	if missing > 0 || dup > 0 {
		o.add("c14-dead-letter-count", "unreachable, senders keep sending", "%d senders x %d messages to a peer that stays unreachable (limit %d): %d messages have no dead letter and %d have more than one (e.g. %s); every message that cannot be written must be reported exactly once", senders, per, c.Limit, missing, dup, ex)
	}
	o.info = fmt.Sprintf("messages=%d dead_letters=%d missing=%d duplicated=%d", senders*per, last, missing, dup)
	_ = a.stop()
	return
}

// vfRunBlackhole: the peer accepts the TCP connection but never answers the handshake (10 s handshake deadline per
// attempt): Tell must still return at once, the messages are reported as dead letters once the attempts are used up, and
// after the peer answers again later messages are delivered. Thorough tier only (30+ s).
func vfRunBlackhole(c vfFaultCase, seed uint64) (o vfFaultOut) {
	a, b, px, err := vfFaultPair(seed, c.Limit)
	if err != nil {
		o.inc = err.Error()
		return
	}
	defer px.close()
	px.setMode("blackhole")
	toB := b.remoteSink(a)
	done := make(chan struct{})
	go func() {
		defer close(done)
		a.sys.Tell(toB, vfNewNetMsg(1, 1, 50, false))
		a.sys.Tell(toB, vfNewNetMsg(1, 2, 50, false))
	}()
	// logical witness for "Tell returns promptly": it returns although no handshake answer can have arrived
	select {
	case <-done:
	case <-time.After(5 * time.Second):
		o.add("c14-tell-blocks-caller", "blackhole", "Tell to a peer that accepts the connection but never answers the handshake had not returned after 5 s (handshake deadline: 10 s)")
	}
	count := func() (per [3]int) {
		a.obs.mu.Lock()
		defer a.obs.mu.Unlock()
		for _, d := range a.obs.dl {
			for q := 1; q <= 2; q++ {
				if d == fmt.Sprintf("vfNetMsg#1:%d", q) {
					per[q]++
				}
			}
		}
		return
	}
	for end := time.Now().Add(time.Duration(c.Limit+1)*15*time.Second + 30*time.Second); time.Now().Before(end); time.Sleep(100 * time.Millisecond) {
		if p := count(); p[1] > 0 && p[2] > 0 {
			break
		}
	}
	if p := count(); p[1] != 1 || p[2] != 1 {
		o.add("c14-dead-letter-count", "blackhole", "2 messages to a peer that never answers the handshake (limit %d): dead letters per message %v, want exactly 1 each", c.Limit, p[1:])
	}
	px.setMode("asis")
	px.closeConns()
	for q := 3; q <= 14; q++ {
		a.sys.Tell(toB, vfNewNetMsg(1, q, 50, false))
		time.Sleep(50 * time.Millisecond)
	}
	vfWaitCount(b.sink, 12, 15*time.Second)
	seqs := vfCheckSubsequence(b.sink.snapshot(), 1, 14, &o)
	if len(seqs) == 0 || seqs[len(seqs)-1] != 14 {
		o.add("c14-no-recovery", "blackhole", "after the peer answered handshakes again the later messages were not delivered: received %v of 3..14", seqs)
	}
	o.info = fmt.Sprintf("dead_letters=%v received_after_recovery=%v", count(), seqs)
	_ = a.stop()
	_ = b.stop()
	return
}

// raw client speaking the wire protocol to B directly (frame injection)
func vfRawDial(addr, advertise string) (net.Conn, error) {
	c, err := net.DialTimeout("tcp", addr, 2*time.Second)
	if err != nil {
		return nil, err
	}
	w := messages.NewWriter()
	_ = w.WriteFrom(advertise)
	if _, err = c.Write(w.Bytes()); err != nil {
		return nil, err
	}
	// read the server's handshake: 4-byte length + address
	var lb [4]byte
	_ = c.SetReadDeadline(time.Now().Add(3 * time.Second))
	if _, err = io.ReadFull(c, lb[:]); err != nil {
		return nil, fmt.Errorf("server handshake: %w", err)
	}
	rest := make([]byte, binary.BigEndian.Uint32(lb[:]))
	if _, err = io.ReadFull(c, rest); err != nil {
		return nil, fmt.Errorf("server handshake: %w", err)
	}
	_ = c.SetReadDeadline(time.Time{})
	return c, nil
}

func vfFrame(body []byte) []byte {
	out := make([]byte, 4+len(body))
	binary.BigEndian.PutUint32(out, uint32(len(body)))
	copy(out[4:], body)
	return out
}

func vfValidFrame(b *vfNode, sender, seq int) []byte {
	snd, _ := NewRef("127.0.0.1:1", "/raw")
	rcv, _ := NewRef(b.adv, "/sink")
	data, _ := serialize.EncodeEnvelopWithRemoting(nil, mailbox.NewEnvelop(false, snd, rcv, vfNewNetMsg(sender, seq, 50, false)))
	return vfFrame(data)
}

func vfRunInject(c vfFaultCase, seed uint64) (o vfFaultOut) {
	addrB := vfFreeAddr()
	b, err := vfStartNode(addrB, addrB)
	if err != nil {
		o.inc = err.Error()
		return
	}
	defer func() { _ = b.stop() }()
	type script struct {
		name   string
		frames [][]byte
		want   []int // seqs that must be delivered, in order
	}
	garbage := make([]byte, 200)
	for i := range garbage {
		garbage[i] = byte(i*37 + 11)
	}
	huge := make([]byte, 4<<20+1)
	scripts := []script{
		{"valid,valid", [][]byte{vfValidFrame(b, 1, 1), vfValidFrame(b, 1, 2)}, []int{1, 2}},
		{"undecodable body, then valid", [][]byte{vfFrame(garbage), vfValidFrame(b, 2, 1), vfValidFrame(b, 2, 2)}, []int{1, 2}},
		{"valid length + truncated envelope, then valid", [][]byte{vfFrame(vfValidFrame(b, 3, 9)[4:40]), vfValidFrame(b, 3, 1)}, []int{1}},
		{"unknown message name, then valid", [][]byte{vfFrame(func() []byte {
			w := messages.NewWriter()
			_ = w.WriteFrom([]byte("x"), "noSuchMessage", false, "127.0.0.1:1", "/raw", b.adv, "/sink")
			return append([]byte(nil), w.Bytes()...)
		}()), vfValidFrame(b, 4, 1)}, []int{1}},
		{"frame longer than 4 MiB, then valid", [][]byte{vfFrame(huge), vfValidFrame(b, 5, 1), vfValidFrame(b, 5, 2)}, []int{1, 2}},
	}
	for si, sc := range scripts {
		conn, err := vfRawDial(addrB, "127.0.0.1:1")
		if err != nil {
			o.add("c14-raw-handshake", sc.name, "raw client could not complete the handshake: %v", err)
			continue
		}
		before := b.sink.n.Load()
		for _, f := range sc.frames {
			_ = conn.SetWriteDeadline(time.Now().Add(5 * time.Second))
			if _, err := conn.Write(f); err != nil {
				break
			}
		}
		vfWaitCount(b.sink, before+int64(len(sc.want)), 1500*time.Millisecond)
		var got []int
		for _, g := range b.sink.snapshot() {
			if g.Sender == si+1 {
				got = append(got, g.Seq)
				if !g.SumOK {
					o.add("c14-corrupted", sc.name, "corrupted delivery")
				}
			}
		}
		if fmt.Sprint(got) != fmt.Sprint(sc.want) {
			o.add("c14-later-frames-not-delivered", sc.name, "script %q on one uncut connection: delivered %v, want %v (a bad frame must not stop, duplicate or corrupt the frames that follow it)", sc.name, got, sc.want)
		}
		_ = conn.Close()
	}
	// zero-length frame = close handshake: the server answers with a zero-length frame and closes
	if conn, err := vfRawDial(addrB, "127.0.0.1:1"); err == nil {
		_, _ = conn.Write([]byte{0, 0, 0, 0})
		_ = conn.SetReadDeadline(time.Now().Add(3 * time.Second))
		buf := make([]byte, 16)
		n, _ := io.ReadFull(conn, buf[:4])
		if n != 4 || binary.BigEndian.Uint32(buf[:4]) != 0 {
			o.add("c14-close-handshake", "zero-length frame", "zero-length frame was not acknowledged with a zero-length frame (read %d bytes %x)", n, buf[:n])
		}
		_ = conn.Close()
	}
	b.obs.mu.Lock()
	o.info = fmt.Sprintf("decode_failed_events=%d delivered=%d", len(b.obs.decode), b.sink.n.Load())
	b.obs.mu.Unlock()
	return
}

// vfRunOversize: a user payload that does not fit a frame is refused on the sender (one dead letter) and does not
// disturb the link: messages before and after it arrive.
func vfRunOversize(c vfFaultCase, seed uint64) (o vfFaultOut) {
	a, b, px, err := vfFaultPair(seed, c.Limit)
	if err != nil {
		o.inc = err.Error()
		return
	}
	defer px.close()
	toB := b.remoteSink(a)
	done := make(chan struct{})
	go func() {
		defer close(done)
		a.sys.Tell(toB, vfNewNetMsg(1, 1, 100, false))
		a.sys.Tell(toB, vfNewNetMsg(1, 2, 5<<20, false)) // cannot fit into a 4 MiB frame
		a.sys.Tell(toB, vfNewNetMsg(1, 3, 100, false))
		a.sys.Tell(toB, vfNewNetMsg(1, 4, 100, false))
	}()
	select {
	case <-done:
	case <-time.After(30 * time.Second):
		o.add("c14-tell-blocked-on-oversize", "oversize", "Tell of an oversize message (or the ones after it) did not return within 30 s")
	}
	// logical completion: the three normal messages arrived and the oversize one was reported (generous watchdog only)
	dlOversize := func() (n int) {
		a.obs.mu.Lock()
		defer a.obs.mu.Unlock()
		for _, d := range a.obs.dl {
			if d == "vfNetMsg#1:2" {
				n++
			}
		}
		return
	}
	for end := time.Now().Add(60 * time.Second); time.Now().Before(end) && (b.sink.n.Load() < 3 || dlOversize() < 1); {
		time.Sleep(20 * time.Millisecond)
		if b.sink.n.Load() >= 3 && time.Now().After(end.Add(-55*time.Second)) {
			break // delivered; 5 s were enough for a dead letter to show up
		}
	}
	seqs := vfCheckSubsequence(b.sink.snapshot(), 1, 4, &o)
	if fmt.Sprint(seqs) != "[1 3 4]" {
		o.add("c14-oversize-disturbs-link", "oversize", "messages 1, 3, 4 (normal) and 2 (5 MiB, cannot be framed): delivered %v, want [1 3 4]", seqs)
	}
	time.Sleep(100 * time.Millisecond)
	a.obs.mu.Lock()
	n := 0
	for _, d := range a.obs.dl {
		if d == "vfNetMsg#1:2" {
			n++
		}
	}
	nd := len(b.obs.decode)
	a.obs.mu.Unlock()
	if n != 1 {
		o.add("c14-oversize-not-dead-lettered", "oversize", "the message that cannot be framed produced %d dead letters on the sender, want 1", n)
	}
	o.info = fmt.Sprintf("delivered=%v dead_letters_for_oversize=%d receiver_decode_failures=%d", seqs, n, nd)
	_ = a.stop()
	_ = b.stop()
	return
}

// vfRunRestart: the peer stops and a new system comes up on the same address: later messages are delivered.
func vfRunRestart(c vfFaultCase, seed uint64) (o vfFaultOut) {
	addrA, addrB := vfFreeAddr(), vfFreeAddr()
	opt := vivid.WithActorSystemRemotingOption(vivid.WithActorSystemRemotingReconnectLimit(c.Limit))
	a, err := vfStartNode(addrA, addrA, opt)
	if err != nil {
		o.inc = err.Error()
		return
	}
	b, err := vfStartNode(addrB, addrB, opt)
	if err != nil {
		o.inc = err.Error()
		return
	}
	toB, _ := a.sys.CreateRef(addrB, "/sink")
	for q := 1; q <= 5; q++ {
		a.sys.Tell(toB, vfNewNetMsg(1, q, 80, false))
	}
	vfWaitCount(b.sink, 5, time.Second)
	first := vfCheckSubsequence(b.sink.snapshot(), 1, 30, &o)
	_ = b.stop()
	time.Sleep(50 * time.Millisecond)
	b2, err := vfStartNode(addrB, addrB, opt)
	if err != nil {
		o.inc = "restart: " + err.Error()
		_ = a.stop()
		return
	}
	for q := 6; q <= 20; q++ {
		a.sys.Tell(toB, vfNewNetMsg(1, q, 80, false))
		time.Sleep(15 * time.Millisecond)
	}
	vfWaitCount(b2.sink, 15, time.Second)
	second := vfCheckSubsequence(b2.sink.snapshot(), 1, 30, &o)
	if len(first) != 5 {
		o.add("c14-harness", "restart", "before the restart %v arrived", first)
	}
	ok := len(second) > 0 && second[len(second)-1] == 20
	for i := 1; i < len(second); i++ {
		if second[i] != second[i-1]+1 {
			ok = false
		}
	}
	if !ok {
		o.add("c14-no-recovery", "peer restart", "after the peer came back on the same address the later messages must be delivered without further loss once the first one got through; new peer received %v of 6..20", second)
	}
	o.info = fmt.Sprintf("before=%v after=%v", first, second)
	_ = a.stop()
	_ = b2.stop()
	return
}

func vfFaultCases(thorough bool) []vfFaultCase {
	var cs []vfFaultCase
	step := 8
	limits := []int{1}
	if thorough {
		step = 1
		limits = []int{0, 1, 3}
	}
	// a 5-frame stream behind a handshake is about 19 + 5 x 290 bytes; offsets beyond the stream are harmless
	for _, lim := range limits {
		for k := 0; k <= 1500; k += step {
			cs = append(cs, vfFaultCase{Kind: "cut", K: k, Limit: lim})
		}
	}
	for _, lim := range []int{0, 1, 3} {
		cs = append(cs, vfFaultCase{Kind: "refuse", Limit: lim})
	}
	if thorough {
		cs = append(cs, vfFaultCase{Kind: "blackhole", Limit: 0}, vfFaultCase{Kind: "blackhole", Limit: 1})
	}
	cs = append(cs, vfFaultCase{Kind: "refusestorm", Limit: 0}, vfFaultCase{Kind: "refusestorm", Limit: 1})
	cs = append(cs, vfFaultCase{Kind: "inject"}, vfFaultCase{Kind: "oversize", Limit: 1}, vfFaultCase{Kind: "restart", Limit: 1}, vfFaultCase{Kind: "restart", Limit: 3})
	return cs
}

func TestVerif_remotefaults(t *testing.T) {
	R := verifrt.NewReport("remotefaults", "fault enumeration on real loopback links: (cut) the proxy closes the connection after exactly k forwarded bytes for every 8th (thorough: every) offset k of a handshake + 5-frame stream, then the link is healed and 12 more messages follow; (refuse) nobody listens, reconnect limits 0/1/3; (inject) a raw client injects undecodable bodies, truncated envelopes, unknown message names, a frame longer than 4 MiB and the zero-length close frame in front of valid frames on one connection; (oversize) a 5 MiB user payload between normal messages; (restart) the peer stops and a new system comes up on the same address. Monitors: subsequence/CRC monitor at the receiver (no corruption, duplicate, reorder, phantom), recovery (after the first post-heal delivery nothing is lost any more), dead-letter ledger on the sender (exactly one for an unreachable peer / unframeable message, never delivered-and-dead-lettered), goroutine-stack witness for 'Tell blocks the caller'. non-trivial+distinct = distinct cases in which a fault was really injected (cut fired / connection refused / bad frame sent)")
	defer R.Flush()
	cases := vfFaultCases(verifrt.Thorough())
	only := verifrt.EnvInt("VERIF_CASE", -1)
	for ci, c := range cases {
		if !verifrt.Mine(ci) || (only >= 0 && only != ci) {
			continue
		}
		R.Journal(ci, c.String())
		seed := verifrt.CaseSeed("remotefaults", ci)
		run := func() vfFaultOut {
			switch c.Kind {
			case "cut":
				return vfRunCut(c, seed)
			case "refuse":
				return vfRunRefuse(c, seed)
			case "refusestorm":
				return vfRunRefuseStorm(c, seed)
			case "blackhole":
				return vfRunBlackhole(c, seed)
			case "inject":
				return vfRunInject(c, seed)
			case "oversize":
				return vfRunOversize(c, seed)
			}
			return vfRunRestart(c, seed)
		}
		o := run()
		if o.inc != "" {
			o = run() // one isolated retry
		}
		R.Eval()
		if o.inc != "" {
			R.Inconcl(fmt.Sprintf("case %d (%s): %s", ci, c, o.inc))
			continue
		}
		for _, v := range o.viols {
			R.Violate(ci, v.Kind, v.Key, v.Detail+" | case: "+c.String()+" | "+o.info, map[string]any{"case": c.String()})
		}
		if c.Kind != "cut" || strings.Contains(o.info, "cuts=1") || strings.Contains(o.info, "cuts=2") {
			R.Nontrivial(c.String())
			R.Obs("faults_injected_"+c.Kind, 1)
		}
		if ci%40 == 0 || c.Kind != "cut" {
			R.Sample(map[string]any{"case": c.String(), "observed": verifrt.Short(o.info, 400)})
		}
	}
}
