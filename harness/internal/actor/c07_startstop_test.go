//go:build verif

package actor

import (
	"context"
	"errors"
	"fmt"
	"sort"
	"strings"
	"sync"
	"testing"
	"time"

	"github.com/anishathalye/porcupine"
	"github.com/kercylan98/vivid"
	"github.com/kercylan98/vivid/internal/verifrt"
)

// C07 — Start/Stop/context-cancel as a one-way state machine that never hangs (DESIGN §4 C07).

type vfSSOp struct {
	Kind    string // start | stop | stopt | cancel
	Timeout time.Duration
}

func (o vfSSOp) String() string {
	if o.Kind == "stopt" {
		return fmt.Sprintf("Stop(%v)", o.Timeout)
	}
	return map[string]string{"start": "Start()", "stop": "Stop()", "cancel": "cancel()"}[o.Kind]
}

type vfSSCase struct {
	Groups  [][]vfSSOp // ops of one group are issued concurrently at one virtual instant
	Tree    int        // 0 none, 1 small tree, 2 tree with paused/failed/restarting actors and jobs/asks, 3 tree with an actor held in a handler (Stop must time out)
	Metrics bool
}

func (c vfSSCase) String() string {
	var gs []string
	for _, g := range c.Groups {
		var s []string
		for _, o := range g {
			s = append(s, o.String())
		}
		gs = append(gs, strings.Join(s, " || "))
	}
	return fmt.Sprintf("tree=%d metrics=%v: %s", c.Tree, c.Metrics, strings.Join(gs, " ; "))
}

func vfSSErrName(err error) string {
	switch {
	case err == nil:
		return "nil"
	case errors.Is(err, vivid.ErrorActorSystemStartFailed):
		return "start-failed"
	case errors.Is(err, vivid.ErrorActorSystemAlreadyStarted):
		return "already-started"
	case errors.Is(err, vivid.ErrorActorSystemAlreadyStopped):
		return "already-stopped"
	case errors.Is(err, vivid.ErrorActorSystemNotStarted):
		return "not-started"
	case errors.Is(err, vivid.ErrorActorSystemStopFailed):
		return "stop-failed"
	}
	return "other:" + err.Error()
}

type vfSSIn struct{ Kind string }

// vfSSTol: slack for virtual-time bounds in the inject tier (the injected delays themselves take virtual ns)
var vfSSTol time.Duration

// sequential model: 0 ready, 1 started, 2 stopped
var vfSSModel = porcupine.Model{
	Init: func() any { return 0 },
	Step: func(st, in, out any) (bool, any) {
		s := st.(int)
		o := out.(string)
		switch in.(vfSSIn).Kind {
		case "start":
			switch s {
			case 0:
				if o == "start-failed" { // the system context was cancelled while starting: the system ends stopped
					return true, 2
				}
				return o == "nil", 1
			case 1:
				return o == "already-started", 1
			}
			return o == "already-stopped", 2
		case "stop":
			switch s {
			case 0:
				return o == "not-started", 0
			case 1:
				return o == "nil" || o == "stop-failed", 2
			}
			return o == "already-stopped", 2
		case "cancel":
			if s == 1 {
				return true, 2
			}
			return true, s
		}
		return false, s
	},
	DescribeOperation: func(in, out any) string { return in.(vfSSIn).Kind + "->" + out.(string) },
}

func vfRunSS(c vfSSCase, res *vfCellResult) {
	add := func(kind, key, f string, a ...any) {
		res.viols = append(res.viols, vfViol{kind, key, fmt.Sprintf(f, a...)})
	}
	ctx, cancel := context.WithCancel(context.Background())
	defer cancel()
	opts := []vivid.ActorSystemOption{vivid.WithActorSystemContext(ctx), vivid.WithActorSystemStopTimeout(30 * time.Second)}
	if c.Metrics {
		opts = append(opts, vivid.WithActorSystemEnableMetrics(true))
	}
	w := newVfWorld(opts...)
	res.w = w
	t0 := time.Now()
	type rec struct {
		op        vfSSOp
		call, ret int64
		out       string
		took      time.Duration
	}
	var mu sync.Mutex
	var recs []rec
	started := false
	populated := false
	var gate *vfGate
	cancelled := false
	for _, g := range c.Groups {
		var wg sync.WaitGroup
		for _, o := range g {
			wg.Add(1)
			go func(o vfSSOp) {
				defer wg.Done()
				call := w.clock.Add(1)
				at := time.Now()
				var err error
				switch o.Kind {
				case "start":
					err = w.sys.Start()
				case "stop":
					err = w.sys.Stop()
				case "stopt":
					err = w.sys.Stop(o.Timeout)
				case "cancel":
					cancel()
				}
				r := rec{op: o, call: call, ret: w.clock.Add(1), out: vfSSErrName(err), took: time.Since(at)}
				if o.Kind == "cancel" {
					r.out = "-"
				}
				mu.Lock()
				recs = append(recs, r)
				mu.Unlock()
			}(o)
			if o.Kind == "cancel" {
				cancelled = true
			}
		}
		wg.Wait()
		w.wait()
		// after the first successful Start: populate the system
		if !started {
			mu.Lock()
			for _, r := range recs {
				if r.op.Kind == "start" && r.out == "nil" {
					started = true
				}
			}
			mu.Unlock()
		}
		if started && !populated && w.sys.Context != nil && !cancelled {
			stoppedAlready := false
			mu.Lock()
			for _, r := range recs {
				if (r.op.Kind == "stop" || r.op.Kind == "stopt") && (r.out == "nil" || r.out == "stop-failed") {
					stoppedAlready = true
				}
			}
			mu.Unlock()
			if !stoppedAlready {
				populated = true
				gate = vfPopulate(w, c.Tree)
			}
		}
	}
	w.wait()
	// cancel ops complete asynchronously: give the guardian goroutine its chance (virtual time), then everything is settled
	time.Sleep(31 * time.Second)
	w.wait()
	if gate != nil {
		select {
		case <-gate.release:
		default:
			close(gate.release)
		}
		w.wait()
		time.Sleep(31 * time.Second)
		w.wait()
	}
	end := w.clock.Add(1)
	// 1. results are a linearization of the state machine
	var ops []porcupine.Operation
	anyStopOK, anyStartOK := false, false
	for i, r := range recs {
		kind := r.op.Kind
		if kind == "stopt" {
			kind = "stop"
		}
		ret := r.ret
		if kind == "cancel" {
			ret = end
		}
		ops = append(ops, porcupine.Operation{ClientId: i, Input: vfSSIn{kind}, Call: r.call, Return: ret, Output: r.out})
		if kind == "stop" && (r.out == "nil" || r.out == "stop-failed") {
			anyStopOK = true
		}
		if kind == "start" && r.out == "nil" {
			anyStartOK = true
		}
		if strings.HasPrefix(r.out, "other:") || (r.out == "start-failed" && !cancelled) {
			add("c07-unexpected-error", r.op.Kind, "%s returned %s", r.op, r.out)
		}
		if r.out == "start-failed" {
			anyStartOK, anyStopOK = true, true // a failed start stops the system
		}
		// 2. promptness: every call returns within its bound (virtual time)
		bound := 30 * time.Second
		if r.op.Kind == "stopt" && r.op.Timeout >= 0 {
			bound = r.op.Timeout
		}
		if r.op.Kind == "cancel" {
			bound = 0
		}
		if r.took > bound+vfSSTol {
			add("c07-call-exceeded-bound", r.op.Kind, "%s took %v of virtual time, bound %v (result %s)", r.op, r.took, bound, r.out)
		}
		if (r.out == "already-started" || r.out == "already-stopped" || r.out == "not-started") && r.took > vfSSTol {
			add("c07-rejection-not-prompt", r.op.Kind, "%s was rejected with %s only after %v of virtual time", r.op, r.out, r.took)
		}
		if r.out == "stop-failed" && c.Tree != 3 && !(r.op.Kind == "stopt" && r.op.Timeout == 0) {
			add("c07-stop-timed-out", r.op.Kind, "%s returned stop-failed after %v although no actor was blocking termination", r.op, r.took)
		}
	}
	if lr, _ := porcupine.CheckOperationsVerbose(vfSSModel, ops, 10*time.Second); lr == porcupine.Illegal {
		var d []string
		sort.Slice(recs, func(i, j int) bool { return recs[i].call < recs[j].call })
		for _, r := range recs {
			d = append(d, fmt.Sprintf("[%d,%d] %s->%s", r.call, r.ret, r.op, r.out))
		}
		add("c07-not-a-state-machine-run", "results", "the results of the calls are not those of any sequential order of the calls on the ready->started->stopped machine: %s", strings.Join(d, " ; "))
	}
	// 3. after a successful Stop (or a cancel after a successful Start) nothing is alive
	shouldBeStopped := anyStartOK && (anyStopOK || cancelled)
	if shouldBeStopped {
		acts, futs := w.registry()
		var alive []string
		for p := range acts {
			alive = append(alive, p)
		}
		sort.Strings(alive)
		if len(alive) > 0 {
			add("c07-actors-alive-after-stop", "registry", "after Stop returned / the context was cancelled these actors are still registered: %v", alive)
		}
		if len(futs) > 0 {
			add("c07-futures-left-after-stop", "registry", "%v", futs)
		}
		select {
		case <-w.sys.guardClosedSignal:
		default:
			add("c07-root-alive-after-stop", "guard", "the root guard never terminated although the system was stopped")
		}
		w.sys.statusLock.Lock()
		st := w.sys.status
		w.sys.statusLock.Unlock()
		if st != stop {
			add("c07-status-not-stopped", "status", "status=%d after stop/cancel (want %d)", st, stop)
		}
	}
	var outs []string
	for _, r := range recs {
		outs = append(outs, r.op.Kind+"="+r.out)
	}
	sort.Strings(outs)
	res.sig = strings.Join(outs, ",")
	_ = t0
	// housekeeping (not part of the scenario): a system the scenario left running is stopped so that the bubble can end
	w.sys.statusLock.Lock()
	st := w.sys.status
	w.sys.statusLock.Unlock()
	if st == start {
		_ = w.sys.Stop()
	}
	w.wait()
	time.Sleep(time.Microsecond) // let goroutines sleeping at an injected yield point finish
	w.wait()
}

// vfPopulate builds an actor tree in various awkward states; returns a gate if an actor is held inside a handler.
func vfPopulate(w *vfWorld, tree int) *vfGate {
	if tree == 0 {
		return nil
	}
	obs := &vfObserver{w: w}
	if ref, err := w.sys.ActorOf(obs, vivid.WithActorName("vfobs")); err == nil {
		w.obsRef = ref
	}
	top := &vfSpec{Name: "T", Strategy: vfStratOne, Decisions: []vivid.SupervisionDecision{vivid.SupervisionDecisionRestart, vivid.SupervisionDecisionResume, vivid.SupervisionDecisionStop}, Loop: 100 * time.Millisecond, Subs: []int{0}}
	a := &vfSpec{Name: "A", Loop: 70 * time.Millisecond, Children: []*vfSpec{{Name: "G", Subs: []int{1}}, {Name: "G2", Once: time.Millisecond}}}
	b := &vfSpec{Name: "B", Strategy: vfStratAll, Decisions: []vivid.SupervisionDecision{vivid.SupervisionDecisionEscalate}, Children: []*vfSpec{{Name: "H"}, {Name: "Z", HookFail: map[string]int{"restarted": 1}}}}
	top.Children = []*vfSpec{a, b}
	if _, err := w.spawnTop(top); err != nil {
		return nil
	}
	synctestWait()
	if tree >= 2 {
		w.tellName("A", &vfCmd{ID: w.newID(), Op: "panic"})   // restart in progress / done
		w.tellName("H", &vfCmd{ID: w.newID(), Op: "failed"})  // escalation: B pauses, T decides
		w.tellName("G", &vfCmd{ID: w.newID(), Op: "stash"})   // stash content
		w.tellName("Z", &vfCmd{ID: w.newID(), Op: "panic"})   // escalated; later restart makes it a zombie
		w.tellName("T", &vfCmd{ID: w.newID(), Op: "noop"})
	}
	synctestWait() // the restart of A re-creates G2: resolve its reference only after everything has settled
	if tree == 3 {
		g := newVfGate()
		w.tellName("G2", &vfCmd{ID: w.newID(), Op: "gate", Arg: g})
		select {
		case <-g.entered:
			return g
		case <-time.After(time.Second): // G2 did not survive the supervision decisions of this run: nobody is held
			return nil
		}
	}
	return nil
}

func vfGenSS(rng *verifrt.Rand, ci int) vfSSCase {
	c := vfSSCase{Tree: rng.Intn(4), Metrics: rng.Chance(20)}
	kinds := []vfSSOp{{Kind: "start"}, {Kind: "stop"}, {Kind: "stopt", Timeout: time.Second}, {Kind: "stopt", Timeout: 0}, {Kind: "cancel"}, {Kind: "stop"}, {Kind: "start"}}
	ng := 1 + rng.Intn(5)
	for g := 0; g < ng; g++ {
		n := 1
		if rng.Chance(45) {
			n = 2 + rng.Intn(7)
		}
		var grp []vfSSOp
		for k := 0; k < n; k++ {
			o := kinds[rng.Intn(len(kinds))]
			if g == 0 && k == 0 && rng.Chance(70) {
				o = vfSSOp{Kind: "start"}
			}
			grp = append(grp, o)
		}
		c.Groups = append(c.Groups, grp)
	}
	return c
}

func vfEnumSS() []vfSSCase {
	// all sequential call sequences of length <= 4 over {Start, Stop, Stop(1s), cancel}
	base := []vfSSOp{{Kind: "start"}, {Kind: "stop"}, {Kind: "stopt", Timeout: time.Second}, {Kind: "cancel"}}
	var out []vfSSCase
	var rec func(prefix []vfSSOp, depth int)
	rec = func(prefix []vfSSOp, depth int) {
		if len(prefix) > 0 {
			c := vfSSCase{Tree: len(prefix) % 3}
			for _, o := range prefix {
				c.Groups = append(c.Groups, []vfSSOp{o})
			}
			out = append(out, c)
		}
		if depth == 0 {
			return
		}
		for _, o := range base {
			rec(append(append([]vfSSOp(nil), prefix...), o), depth-1)
		}
	}
	rec(nil, 4)
	return out
}

func vfRunSSCases(t *testing.T, R *verifrt.Report, cases []vfSSCase, inject []string) {
	only := verifrt.EnvInt("VERIF_CASE", -1)
	for ci, c := range cases {
		if !verifrt.Mine(ci) || (only >= 0 && only != ci) {
			continue
		}
		desc := c.String()
		var ctl *verifrt.Ctl
		if len(inject) > 0 {
			rng := verifrt.NewRand(verifrt.CaseSeed("ssinject", ci))
			plan := map[string]int64{inject[rng.Intn(len(inject))]: int64(1 + rng.Intn(2))}
			desc = fmt.Sprintf("inject=%v | %s", plan, desc)
			ctl = verifrt.BeginInject(plan, 0)
			vfSSTol = 20 * time.Nanosecond
		}
		R.Journal(ci, desc)
		res := &vfCellResult{}
		hang, stacks, pan := vfBubble(t, 60*time.Second, func() { vfRunSS(c, res) })
		if ctl != nil {
			verifrt.End()
			vfSSTol = 0
		}
		R.Eval()
		viols := res.viols
		if hang {
			viols = append(viols, vfViol{"c07-hang", "bubble", "a Start/Stop call never returned, or the system never became quiescent (60 s real time; normal: ms)\n" + verifrt.Short(stacks, 8000)})
		}
		if pan != nil {
			ps := fmt.Sprint(pan)
			kind := "c07-goroutines-left-after-stop"
			if !strings.Contains(ps, "deadlock") && !strings.Contains(ps, "blocked") {
				kind = "harness-panic"
			}
			viols = append(viols, vfViol{kind, "bubble", "at the end of the scenario goroutines of the system are still blocked: " + verifrt.Short(ps, 4000)})
		}
		if res.sig != "" && (ctl == nil || ctl.Injected() > 0) {
			R.Nontrivial(desc + "|" + res.sig)
		}
		seen := map[string]bool{}
		for _, v := range viols {
			if seen[v.Kind+v.Key] {
				continue
			}
			seen[v.Kind+v.Key] = true
			R.Violate(ci, v.Kind, v.Key, v.Detail+" | scenario: "+desc+" | results: "+res.sig, map[string]any{"scenario": desc})
		}
		if ci%97 == 0 {
			R.Sample(map[string]any{"scenario": desc, "results": res.sig})
		}
		if hang {
			R.Flush()
			t.Fatalf("hang in %s", desc)
		}
	}
}

const vfSSRule = "every sequential sequence of length <= 4 over {Start, Stop, Stop(1s), cancel of the system context} plus PRNG scenarios of 1-5 groups of 1-8 calls issued concurrently at one virtual instant; the system is populated after the first successful Start with nothing / a tree with Loop jobs, subscriptions / the same tree with a restart, an escalation that pauses a supervisor, stash content, a future zombie / additionally an actor held inside a handler (Stop must time out exactly at its timeout); optional metrics actor. Oracle: the recorded (call, return, result) history is linearizable (porcupine) w.r.t. the ready->started->stopped machine; every call returns within its timeout in virtual time and rejections take zero time; after a successful Stop or a cancel nothing is registered, the guard is closed, status is stopped; the bubble ends with no goroutine of the system left. non-trivial+distinct = distinct (scenario, result vector)"

func TestVerif_startstop(t *testing.T) {
	R := verifrt.NewReport("startstop", vfSSRule)
	defer R.Flush()
	cases := vfEnumSS()
	R.ObsMax("max:enumerated_sequences", int64(len(cases)))
	n := verifrt.EnvInt("VERIF_N", 1200)
	if verifrt.Thorough() {
		n = 40000
	}
	for i := 0; i < n; i++ {
		cases = append(cases, vfGenSS(verifrt.NewRand(verifrt.CaseSeed("startstop", i)), i))
	}
	vfRunSSCases(t, R, cases, nil)
}

// inject tier: a maximal delay at one statement of System.Start / System.stop (vinstr), e.g. between the status
// switch of Start and the creation of the root: the other calls of the group run to completion in that window.
func TestVerif_startstopinject(t *testing.T) {
	R := verifrt.NewReport("startstopinject", "inject tier of: "+vfSSRule+" | one PRNG-chosen (yield point of System.Start / System.stop, n-th hit) sleeps 1 virtual ns, i.e. everything else runs to quiescence inside that window")
	defer R.Flush()
	// warm-up: discover the sites of Start/stop
	siteSet := map[string]bool{}
	c := verifrt.Begin(verifrt.ModeCount, 1, 0)
	res := &vfCellResult{}
	vfBubble(t, 60*time.Second, func() {
		vfRunSS(vfSSCase{Groups: [][]vfSSOp{{{Kind: "start"}}, {{Kind: "stop"}}, {{Kind: "stop"}}}, Tree: 1}, res)
	})
	verifrt.End()
	for s := range c.Sites() {
		if strings.HasPrefix(s, "system.Start#") || strings.HasPrefix(s, "system.stop#") || strings.HasPrefix(s, "system.Stop#") {
			siteSet[s] = true
		}
	}
	sites := verifrt.SortedKeys(siteSet)
	R.ObsMax("max:candidate_sites", int64(len(sites)))
	if len(sites) == 0 {
		R.Inconcl("no instrumented site of System.Start/stop reached")
		return
	}
	n := verifrt.EnvInt("VERIF_N", 1500)
	if verifrt.Thorough() {
		n = 40000
	}
	var cases []vfSSCase
	for i := 0; i < n; i++ {
		rng := verifrt.NewRand(verifrt.CaseSeed("startstopinject", i))
		cs := vfGenSS(rng, i)
		if cs.Tree == 3 {
			cs.Tree = 1
		}
		// make sure calls overlap: first group has >= 2 calls including a Start
		if len(cs.Groups[0]) < 2 {
			cs.Groups[0] = append(cs.Groups[0], vfSSOp{Kind: []string{"stop", "start", "cancel"}[rng.Intn(3)]})
		}
		cs.Groups[0][0] = vfSSOp{Kind: "start"}
		cases = append(cases, cs)
	}
	vfRunSSCases(t, R, cases, sites)
}
