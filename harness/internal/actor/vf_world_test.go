//go:build verif

package actor

import (
	"fmt"
	"reflect"
	"sort"
	"strings"
	"sync"
	"sync/atomic"
	"testing/synctest"
	"time"

	"github.com/kercylan98/vivid"
	"github.com/kercylan98/vivid/internal/future"
	"github.com/kercylan98/vivid/internal/mailbox"
	"github.com/kercylan98/vivid/pkg/log"
	"github.com/kercylan98/vivid/pkg/ves"
)

// Shared monitor library of the actor-level checks (DESIGN §2.5): every actor a workload spawns is a
// recording actor feeding one event log stamped by one atomic logical clock.

// ---- messages understood by recording actors -------------------------------------------------

type vfCmd struct {
	ID     int    // unique id (ledger)
	Op     string // what the receiving behaviour does with it
	Arg    any
	Sender int // external sender index (-1: none)
	Seq    int // per-sender sequence number
}

func (c *vfCmd) String() string { return fmt.Sprintf("#%d:%s", c.ID, c.Op) }

type vfKillArg struct {
	Target string
	Poison bool
}
type vfTellArg struct {
	Target string
	Cmd    *vfCmd
}
type vfStreamEv struct {
	Typ int
	ID  int
	Pub string
	Seq int
}
type vfSched struct {
	Ref string
	ID  int
}

// ---- event log ------------------------------------------------------------------------------

type vfEv struct {
	T    int64
	Kind string // recv | obs | api
	Path string // actor path for recv; subject path for obs
	Inst int    // actor instance id (recv)
	Beh  string // behaviour tag (recv)
	Msg  string // L | K | D:<path> | U | PR | SE | SC | other:<type>   /  obs: killed, restarted, …, dl
	ID   int    // message id for U / dl of vfCmd / SE / SC; -1 otherwise
	Aux  string
	Now  time.Duration
}

func (e vfEv) String() string {
	s := fmt.Sprintf("t%d %s %s %s", e.T, e.Kind, e.Path, e.Msg)
	if e.ID >= 0 {
		s += fmt.Sprintf("#%d", e.ID)
	}
	if e.Aux != "" {
		s += "(" + e.Aux + ")"
	}
	return s
}

type vfSent struct {
	ID         int
	TargetPath string
	Via        string
	At         int64
	AfterStop  bool
	Remote     bool
	Op         string
	// PostRelease: sent after the target, a former zombie, was observed released (terminated and deregistered) at a
	// quiescent point: the zombie exemption of the ledger no longer applies
	PostRelease bool
}

type vfWorld struct {
	sys      *System
	t0       time.Time
	clock    atomic.Int64
	mu       sync.Mutex
	log      []vfEv
	inflight map[string]*int32
	overlaps []string
	refs     map[string]vivid.ActorRef // name -> ref
	specs    map[string]*vfSpec        // path -> spec
	sent     map[int]*vfSent
	nextID   atomic.Int64
	nextInst atomic.Int64
	decCalls map[string]int // supervisor path -> decision maker calls
	decLog   []string
	obsRef   vivid.ActorRef
	stopped  atomic.Bool
	stopping atomic.Bool
	spawnErr []string
	badInst  map[int]bool // instances whose ActorOf returned an error (must never receive anything)
	prelaunchSeen map[string]int
	schedMsgs     map[int]*vfSched
	fut           *vfFutWorld
	instSpec      map[int]*vfSpec // actor instance id -> the spec it was created from
	zombieNames   map[string]bool // actors (by name) whose restart hook failed at some point: they were zombies for a while
	schedIdentity []string
}

func newVfWorld(opts ...vivid.ActorSystemOption) *vfWorld {
	w := &vfWorld{inflight: map[string]*int32{}, refs: map[string]vivid.ActorRef{}, specs: map[string]*vfSpec{}, sent: map[int]*vfSent{}, decCalls: map[string]int{}, badInst: map[int]bool{}, prelaunchSeen: map[string]int{}, zombieNames: map[string]bool{}, instSpec: map[int]*vfSpec{}}
	w.t0 = time.Now()
	opts = append([]vivid.ActorSystemOption{vivid.WithActorSystemLogger(log.NewSilentLogger())}, opts...)
	w.sys = NewSystem(opts...)
	return w
}

func (w *vfWorld) start() error {
	if err := w.sys.Start(); err != nil {
		return err
	}
	obs := &vfObserver{w: w}
	ref, err := w.sys.ActorOf(obs, vivid.WithActorName("vfobs"))
	if err != nil {
		return err
	}
	w.obsRef = ref
	synctest.Wait() // the observer must be subscribed before anything interesting happens
	return nil
}

func (w *vfWorld) add(e vfEv) int64 {
	e.T = w.clock.Add(1)
	e.Now = time.Since(w.t0)
	w.mu.Lock()
	w.log = append(w.log, e)
	w.mu.Unlock()
	return e.T
}

func (w *vfWorld) snapshot() []vfEv {
	w.mu.Lock()
	defer w.mu.Unlock()
	return append([]vfEv(nil), w.log...)
}

func (w *vfWorld) ref(name string) vivid.ActorRef {
	w.mu.Lock()
	defer w.mu.Unlock()
	return w.refs[name]
}

// wasZombie: the actor at this path was a zombie at some point (registry scan or failed restart hook by name).
func (w *vfWorld) wasZombie(path string, scanned map[string]bool) bool {
	if scanned[path] {
		return true
	}
	w.mu.Lock()
	defer w.mu.Unlock()
	return w.zombieNames[vfLast(path)]
}

func (w *vfWorld) newID() int { return int(w.nextID.Add(1)) }

// tell sends a user command from outside (System.Tell) and registers it in the ledger.
func (w *vfWorld) tell(ref vivid.ActorRef, via string, cmd *vfCmd) {
	if cmd.ID == 0 {
		cmd.ID = w.newID()
	}
	w.mu.Lock()
	w.sent[cmd.ID] = &vfSent{ID: cmd.ID, TargetPath: ref.GetPath(), Via: via, At: w.clock.Add(1), AfterStop: w.stopped.Load(), Op: cmd.Op}
	w.mu.Unlock()
	w.sys.Tell(ref, cmd)
}

// tellPostRelease is tell for a target that was a zombie and has been observed released.
func (w *vfWorld) tellPostRelease(ref vivid.ActorRef, via string, cmd *vfCmd) {
	if cmd.ID == 0 {
		cmd.ID = w.newID()
	}
	w.mu.Lock()
	w.sent[cmd.ID] = &vfSent{ID: cmd.ID, TargetPath: ref.GetPath(), Via: via, At: w.clock.Add(1), AfterStop: w.stopped.Load(), Op: cmd.Op, PostRelease: true}
	w.mu.Unlock()
	w.sys.Tell(ref, cmd)
}

func (w *vfWorld) tellName(name string, cmd *vfCmd) {
	w.tell(w.ref(name), "actorof", cmd)
}

func (w *vfWorld) wait() { synctest.Wait() }

func synctestWait() { synctest.Wait() }

// settle = quiescence, then let virtual time pass (pending timers fire), then quiescence again.
func (w *vfWorld) settle(d time.Duration) {
	synctest.Wait()
	time.Sleep(d)
	synctest.Wait()
}

func (w *vfWorld) ctxOf(path string) *Context {
	if v, ok := w.sys.actorContexts.Load(path); ok {
		if c, ok := v.(*Context); ok {
			return c
		}
	}
	return nil
}

// registry returns registered actor paths and outstanding future registrations.
func (w *vfWorld) registry() (actors map[string]*Context, futures []string) {
	actors = map[string]*Context{}
	w.sys.actorContexts.Range(func(k, v any) bool {
		switch x := v.(type) {
		case *Context:
			actors[k.(string)] = x
		case *future.Future[vivid.Message]:
			futures = append(futures, k.(string))
		}
		return true
	})
	sort.Strings(futures)
	return
}

func (w *vfWorld) stop() error {
	err := w.sys.Stop()
	w.stopped.Store(true)
	synctest.Wait()
	return err
}

// ---- observer: one actor subscribed to every actor-level event type ---------------------------

type vfObserver struct {
	w    *vfWorld
	late bool // second observer living under a held parent: records only dead letters, tagged dl2
}

var vfObservedEvents = []any{
	ves.DeathLetterEvent{}, ves.ActorKilledEvent{}, ves.ActorRestartedEvent{}, ves.ActorRestartingEvent{}, ves.ActorFailedEvent{},
	ves.ActorLaunchedEvent{}, ves.ActorSpawnedEvent{}, ves.ActorWatchedEvent{}, ves.ActorUnwatchedEvent{},
	ves.ActorMailboxPausedEvent{}, ves.ActorMailboxResumedEvent{},
}

func vfMsgTag(m any) (string, int) {
	switch x := m.(type) {
	case *vfCmd:
		return "U", x.ID
	case *vivid.OnLaunch:
		return "L", -1
	case *vivid.OnKill:
		return "K", -1
	case *vivid.OnKilled:
		if x.Ref != nil {
			return "D:" + x.Ref.GetPath(), -1
		}
		return "D:<nil>", -1
	case *vivid.PipeResult:
		return "PR", -1
	case interface{ base() vfStreamEv }:
		return "SE", x.base().ID
	case *vfSched:
		return "SC", x.ID
	case *SchedulerMessage:
		if s, ok := x.Message.(*vfSched); ok {
			return "SCW", s.ID
		}
		return "SCW", -1
	}
	return "other:" + reflect.TypeOf(m).String(), -1
}

func (o *vfObserver) OnReceive(ctx vivid.ActorContext) {
	w := o.w
	switch m := ctx.Message().(type) {
	case *vivid.OnLaunch:
		if o.late {
			ctx.EventStream().Subscribe(ctx, ves.DeathLetterEvent{})
			return
		}
		for _, e := range vfObservedEvents {
			ctx.EventStream().Subscribe(ctx, e)
		}
	case ves.DeathLetterEvent:
		tag, id := vfMsgTag(m.Envelope.Message())
		if o.late {
			if w.stopping.Load() {
				w.add(vfEv{Kind: "obs2", Path: "", Msg: "dl2:" + tag, ID: id})
			}
			return
		}
		rp := "<nil>"
		if m.Envelope.Receiver() != nil {
			rp = m.Envelope.Receiver().GetPath()
		}
		aux := ""
		if m.Envelope.System() {
			aux = "system"
		}
		w.add(vfEv{Kind: "obs", Path: rp, Msg: "dl:" + tag, ID: id, Aux: aux})
	case ves.ActorKilledEvent:
		w.add(vfEv{Kind: "obs", Path: m.ActorRef.GetPath(), Msg: "killed", ID: -1})
	case ves.ActorRestartedEvent:
		w.add(vfEv{Kind: "obs", Path: m.ActorRef.GetPath(), Msg: "restarted", ID: -1})
	case ves.ActorRestartingEvent:
		w.add(vfEv{Kind: "obs", Path: m.ActorRef.GetPath(), Msg: "restarting", ID: -1})
	case ves.ActorFailedEvent:
		w.add(vfEv{Kind: "obs", Path: m.ActorRef.GetPath(), Msg: "failed", ID: -1})
	case ves.ActorLaunchedEvent:
		w.add(vfEv{Kind: "obs", Path: m.ActorRef.GetPath(), Msg: "launched", ID: -1})
	case ves.ActorSpawnedEvent:
		w.add(vfEv{Kind: "obs", Path: m.ActorRef.GetPath(), Msg: "spawned", ID: -1})
	case ves.ActorWatchedEvent:
		w.add(vfEv{Kind: "obs", Path: m.ActorRef.GetPath(), Msg: "watched", ID: -1, Aux: m.Watcher.GetPath()})
	case ves.ActorUnwatchedEvent:
		w.add(vfEv{Kind: "obs", Path: m.ActorRef.GetPath(), Msg: "unwatched", ID: -1, Aux: m.Watcher.GetPath()})
	case ves.ActorMailboxPausedEvent:
		w.add(vfEv{Kind: "obs", Path: m.ActorRef.GetPath(), Msg: "paused", ID: -1})
	case ves.ActorMailboxResumedEvent:
		w.add(vfEv{Kind: "obs", Path: m.ActorRef.GetPath(), Msg: "resumed", ID: -1})
	}
}

// ---- recording actor ------------------------------------------------------------------------

const (
	vfStratNone = iota
	vfStratOne
	vfStratAll
)

type vfSpec struct {
	Name          string
	AskTimeout    time.Duration // WithActorDefaultAskTimeout (0 = not set)
	DecisionDelay time.Duration // the decision maker sleeps this long from its second call on
	Children      []*vfSpec // spawned from OnLaunch of every incarnation
	Strategy      int
	Decisions     []vivid.SupervisionDecision // i-th call -> decision (last repeats)
	Provider      bool
	FailLaunchInc int    // panic/Failed in OnLaunch of the n-th incarnation (1-based); 0 = never
	FailMode      int    // 0 panic, 1 ctx.Failed
	FailChildDead string // fail (once) when OnKilled of this child name arrives
	HookFail      map[string]int // prerestart|restarted|prelaunch -> 1 error, 2 panic (prelaunch: only on restart unless PrelaunchFailFirst)
	PrelaunchFailFirst bool
	Subs          []int         // stream event types subscribed at launch
	UnsubAtLaunch []int         // ... and unsubscribed again right away (partial unsubscribe; often the only subscriber of that type)
	Loop          time.Duration // Loop job to self started at launch
	LoopID        int           // message id carried by the launch Loop job (0: untracked)
	Once          time.Duration // harmless Once job to self at launch (leaves a fired one-shot entry behind)
	OnceFail      time.Duration // Once job to self at launch whose delivery fails (first incarnation only)
	BecomeAt      int           // after n user messages install a 'became' behaviour; 0 = never
	TrackStash    bool          // log StashCount after every user message
	LateObserver  bool          // spawn a second dead-letter observer as a child (stays alive while this actor is held during Stop)
	SpawnOnKill   bool          // spawn a child "<name>k" from the OnKill handler (parent already terminating)
	SpawnOnChildDead bool       // spawn a child "<name>d" from the handler of a child's OnKilled
}

type vfActor struct {
	w        *vfWorld
	spec     *vfSpec
	inst     int
	counter  int  // user messages handled by this instance
	childDeadFailed bool
	prelaunchCalls  int
	fromProvider    bool
}

func (w *vfWorld) newActor(spec *vfSpec) *vfActor {
	a := &vfActor{w: w, spec: spec, inst: int(w.nextInst.Add(1))}
	w.mu.Lock()
	w.instSpec[a.inst] = spec
	w.mu.Unlock()
	return a
}

func (w *vfWorld) options(spec *vfSpec) []vivid.ActorOption {
	opts := []vivid.ActorOption{vivid.WithActorName(spec.Name)}
	if spec.AskTimeout > 0 {
		opts = append(opts, vivid.WithActorDefaultAskTimeout(spec.AskTimeout))
	}
	if spec.Strategy != vfStratNone {
		mk := vivid.SupervisionStrategyDecisionMakerFN(func(sc vivid.SupervisionContext) (vivid.SupervisionDecision, string) {
			w.mu.Lock()
			n := w.decCalls[spec.Name]
			w.decCalls[spec.Name] = n + 1
			child := "?"
			if f := sc.Child().First(); f != nil {
				child = f.GetPath()
			}
			w.decLog = append(w.decLog, fmt.Sprintf("%s<-%s", spec.Name, child))
			w.mu.Unlock()
			w.add(vfEv{Kind: "api", Path: spec.Name, Msg: "decision", ID: -1, Aux: child})
			if spec.DecisionDelay > 0 && n >= 1 {
				time.Sleep(spec.DecisionDelay) // a supervisor that takes its time over a repeated failure (virtual time)
			}
			w.add(vfEv{Kind: "api", Path: spec.Name, Msg: "decided", ID: -1, Aux: child})
			d := spec.Decisions[len(spec.Decisions)-1]
			if n < len(spec.Decisions) {
				d = spec.Decisions[n]
			}
			return d, "vf"
		})
		if spec.Strategy == vfStratOne {
			opts = append(opts, vivid.WithActorSupervisionStrategy(vivid.OneForOneStrategy(mk)))
		} else {
			opts = append(opts, vivid.WithActorSupervisionStrategy(vivid.OneForAllStrategy(mk)))
		}
	}
	if spec.Provider {
		opts = append(opts, vivid.WithActorProvider(vivid.ActorProviderFN(func() vivid.Actor {
			a := w.newActor(spec)
			a.fromProvider = true
			return a
		})))
	}
	return opts
}

func (w *vfWorld) spawnTop(spec *vfSpec) (vivid.ActorRef, error) {
	a := w.newActor(spec)
	ref, err := w.sys.ActorOf(a, w.options(spec)...)
	if err != nil {
		w.mu.Lock()
		w.badInst[a.inst] = true
		w.mu.Unlock()
		return nil, err
	}
	w.mu.Lock()
	w.refs[spec.Name] = ref
	w.specs[ref.GetPath()] = spec
	w.mu.Unlock()
	return ref, nil
}

func (a *vfActor) fail(ctx vivid.ActorContext, what string) {
	a.w.add(vfEv{Kind: "api", Path: ctx.Ref().GetPath(), Inst: a.inst, Msg: "fail", ID: -1, Aux: what})
	if a.spec.FailMode == 1 {
		ctx.Failed("vf-failed:" + what)
	}
	panic("vf-panic:" + what)
}

func (a *vfActor) hook(name string) error {
	a.w.add(vfEv{Kind: "recv", Path: a.spec.Name, Inst: a.inst, Msg: "hook:" + name, ID: -1})
	if code := a.spec.HookFail[name]; code != 0 {
		if name != "prerestart" { // a failing Restarted / Prelaunch hook turns the actor into a zombie
			a.w.mu.Lock()
			a.w.zombieNames[a.spec.Name] = true
			a.w.mu.Unlock()
		}
		if code == 1 {
			return fmt.Errorf("vf hook %s error", name)
		}
		panic("vf hook " + name + " panic")
	}
	return nil
}

func (a *vfActor) OnPrelaunch(ctx vivid.PrelaunchContext) error {
	// Prelaunch runs for the initial spawn (from NewContext) and for every restart. Hook failures are meant for
	// restarts only: a restart calls it on an instance that already ran it, or on an instance made by the provider.
	a.prelaunchCalls++
	if a.prelaunchCalls == 1 && !a.fromProvider {
		if a.spec.PrelaunchFailFirst {
			return fmt.Errorf("vf prelaunch refuses first launch")
		}
		return nil
	}
	return a.hook("prelaunch")
}

func (a *vfActor) OnPreRestart(ctx vivid.RestartContext) error { return a.hook("prerestart") }
func (a *vfActor) OnRestarted(ctx vivid.RestartContext) error  { return a.hook("restarted") }

func (a *vfActor) OnReceive(ctx vivid.ActorContext) { a.handle(ctx, "base") }

func (a *vfActor) became(ctx vivid.ActorContext) { a.handle(ctx, "became") }

func (a *vfActor) handle(ctx vivid.ActorContext, beh string) {
	w := a.w
	path := ctx.Ref().GetPath()
	w.mu.Lock()
	cnt := w.inflight[path]
	if cnt == nil {
		cnt = new(int32)
		w.inflight[path] = cnt
	}
	w.mu.Unlock()
	if atomic.AddInt32(cnt, 1) != 1 {
		w.mu.Lock()
		w.overlaps = append(w.overlaps, path)
		w.mu.Unlock()
	}
	defer atomic.AddInt32(cnt, -1)

	msg := ctx.Message()
	tag, id := vfMsgTag(msg)
	aux := ""
	if s := ctx.Sender(); s != nil {
		aux = "from=" + s.GetPath()
	}
	if pr, ok := msg.(*vivid.PipeResult); ok {
		v := ""
		if rp, ok := pr.Message.(*vfReply); ok {
			v = fmt.Sprintf("reply(ask=%d,n=%d)", rp.AskID, rp.N)
		}
		aux = fmt.Sprintf("pr(%s,%s)", v, vfErrKind(pr.Error))
	}
	w.add(vfEv{Kind: "recv", Path: path, Inst: a.inst, Beh: beh, Msg: tag, ID: id, Aux: aux})

	switch m := msg.(type) {
	case *vivid.OnLaunch:
		a.onLaunch(ctx)
	case *vivid.OnKill:
		if a.spec.SpawnOnKill {
			a.spawn(ctx, &vfSpec{Name: a.spec.Name + "k"})
		}
	case *vivid.OnKilled:
		if a.spec.SpawnOnChildDead && m.Ref != nil && !m.Ref.Equals(ctx.Ref()) && !strings.HasSuffix(m.Ref.GetPath(), "d") {
			a.spawn(ctx, &vfSpec{Name: a.spec.Name + "d"})
		}
		if a.spec.FailChildDead != "" && !a.childDeadFailed && m.Ref != nil && strings.HasSuffix(m.Ref.GetPath(), "/"+a.spec.FailChildDead) {
			a.childDeadFailed = true
			a.fail(ctx, "child-dead")
		}
	case *vfCmd:
		a.counter++
		if a.spec.BecomeAt > 0 && a.counter == a.spec.BecomeAt {
			ctx.Become(a.became)
		}
		a.exec(ctx, m)
		if a.spec.TrackStash {
			w.add(vfEv{Kind: "api", Path: path, Msg: "stashcount", ID: ctx.StashCount()})
		}
	case *vfAskMsg:
		a.onAskMsg(ctx, m, w.fut)
	case *vfSched:
		if m.Ref == "oncefail" {
			a.fail(ctx, "scheduled")
		}
		if m.ID > 0 {
			w.mu.Lock()
			if orig, ok := w.schedMsgs[m.ID]; ok && orig != m {
				w.schedIdentity = append(w.schedIdentity, fmt.Sprintf("%s received a different value than the *vfSched that was scheduled for #%d", path, m.ID))
			}
			w.mu.Unlock()
		}
	}
}

func (a *vfActor) incarnation(path string) int {
	n := 0
	a.w.mu.Lock()
	for _, e := range a.w.log {
		if e.Kind == "recv" && e.Path == path && e.Msg == "L" {
			n++
		}
	}
	a.w.mu.Unlock()
	return n
}

func (a *vfActor) onLaunch(ctx vivid.ActorContext) {
	w := a.w
	path := ctx.Ref().GetPath()
	inc := a.incarnation(path)
	for _, t := range a.spec.Subs {
		ctx.EventStream().Subscribe(ctx, vfStreamEvOf(t))
	}
	for _, t := range a.spec.UnsubAtLaunch { // a partial unsubscribe: the actor keeps its other subscriptions
		ctx.EventStream().Unsubscribe(ctx, vfStreamEvOf(t))
	}
	if a.spec.Loop > 0 {
		lid := -1
		if a.spec.LoopID > 0 {
			lid = a.spec.LoopID
		}
		_ = ctx.Scheduler().Loop(ctx.Ref(), a.spec.Loop, &vfSched{Ref: "loop", ID: lid}, vivid.WithSchedulerReference("vfloop"))
	}
	if a.spec.Once > 0 {
		_ = ctx.Scheduler().Once(ctx.Ref(), a.spec.Once, &vfSched{Ref: "once", ID: -1}, vivid.WithSchedulerReference("vfonce"))
		_ = ctx.Scheduler().Once(ctx.Ref(), 2*a.spec.Once, &vfSched{Ref: "once", ID: -1}, vivid.WithSchedulerReference("vfonce2"))
	}
	if a.spec.OnceFail > 0 && inc == 1 {
		_ = ctx.Scheduler().Once(ctx.Ref(), a.spec.OnceFail, &vfSched{Ref: "oncefail", ID: -1}, vivid.WithSchedulerReference("vfoncefail"))
	}
	for _, cs := range a.spec.Children {
		a.spawn(ctx, cs)
	}
	if a.spec.LateObserver {
		_, _ = ctx.ActorOf(&vfObserver{w: w, late: true}, vivid.WithActorName("obs2"))
	}
	_ = w
	if a.spec.FailLaunchInc > 0 && inc == a.spec.FailLaunchInc {
		a.fail(ctx, "launch")
	}
}

func (a *vfActor) spawn(ctx vivid.ActorContext, cs *vfSpec) {
	w := a.w
	child := w.newActor(cs)
	ref, err := ctx.ActorOf(child, w.options(cs)...)
	if err != nil {
		w.mu.Lock()
		w.badInst[child.inst] = true
		w.spawnErr = append(w.spawnErr, cs.Name+": "+err.Error())
		w.mu.Unlock()
		w.add(vfEv{Kind: "api", Path: ctx.Ref().GetPath(), Msg: "spawn-error", ID: -1, Aux: cs.Name})
		return
	}
	w.mu.Lock()
	w.refs[cs.Name] = ref
	w.specs[ref.GetPath()] = cs
	w.mu.Unlock()
	w.add(vfEv{Kind: "api", Path: ctx.Ref().GetPath(), Msg: "spawn-ok", ID: -1, Aux: ref.GetPath()})
}

func (a *vfActor) exec(ctx vivid.ActorContext, c *vfCmd) {
	w := a.w
	switch c.Op {
	case "noop", "probe":
	case "panic":
		panic(fmt.Sprintf("vf-panic:msg#%d", c.ID))
	case "failed":
		ctx.Failed(fmt.Sprintf("vf-failed:msg#%d", c.ID))
	case "stash":
		ctx.Stash()
	case "unstash":
		ctx.Unstash()
	case "unstashn":
		ctx.Unstash(c.Arg.(int))
	case "become":
		ctx.Become(a.became)
	case "unbecome":
		ctx.UnBecome()
	case "spawn":
		a.spawn(ctx, c.Arg.(*vfSpec))
	case "kill":
		k := c.Arg.(vfKillArg)
		if r := w.ref(k.Target); r != nil {
			ctx.Kill(r, k.Poison, "vf")
		}
	case "respawn":
		// kill a child and re-create it under the same name inside this very handler: ActorOf is retried until the path is
		// free, so the new child exists before this actor handles the old child's OnKilled (a stale death notice for a name
		// that designates a live child again)
		cs := c.Arg.(*vfSpec)
		if r := w.ref(cs.Name); r != nil {
			ctx.Kill(r, false, "vf-respawn")
			for try := 0; try < 200000; try++ {
				child := w.newActor(cs)
				ref, err := ctx.ActorOf(child, w.options(cs)...)
				if err == nil {
					w.mu.Lock()
					w.refs[cs.Name] = ref
					w.mu.Unlock()
					w.add(vfEv{Kind: "api", Path: ctx.Ref().GetPath(), Msg: "respawn-ok", ID: -1, Aux: ref.GetPath()})
					break
				}
				w.mu.Lock()
				w.badInst[child.inst] = true
				w.mu.Unlock()
				time.Sleep(time.Nanosecond)
			}
		}
	case "killself":
		ctx.Kill(ctx.Ref(), c.Arg.(bool), "vf-self")
	case "watch":
		if r := w.ref(c.Arg.(string)); r != nil {
			ctx.Watch(r)
		}
	case "watchref": // watch through a ref the sender built itself (the target may not be known by name yet)
		if r, ok := c.Arg.(vivid.ActorRef); ok && r != nil {
			ctx.Watch(r)
		}
	case "unwatch":
		if r := w.ref(c.Arg.(string)); r != nil {
			ctx.Unwatch(r)
		}
	case "gate":
		g := c.Arg.(*vfGate)
		close(g.entered)
		<-g.release
	case "tell":
		t := c.Arg.(vfTellArg)
		if r := w.ref(t.Target); r != nil {
			if t.Cmd.ID == 0 {
				t.Cmd.ID = w.newID()
			}
			w.mu.Lock()
			w.sent[t.Cmd.ID] = &vfSent{ID: t.Cmd.ID, TargetPath: r.GetPath(), Via: "actor", At: w.clock.Add(1), Op: t.Cmd.Op}
			w.mu.Unlock()
			ctx.Tell(r, t.Cmd)
		}
	case "reply":
		ctx.Reply(c.Arg)
	case "ask":
		a.execAsk(ctx, c.Arg.(vfAskSpec), w.fut)
	case "sched":
		sc := c.Arg.(*vfSchedCmd)
		w.mu.Lock()
		if w.schedMsgs == nil {
			w.schedMsgs = map[int]*vfSched{}
		}
		w.schedMsgs[sc.Msg.ID] = sc.Msg
		w.mu.Unlock()
		a.execSched(ctx, sc)
	}
}

type vfGate struct {
	entered chan struct{}
	release chan struct{}
}

func newVfGate() *vfGate { return &vfGate{entered: make(chan struct{}), release: make(chan struct{})} }

func (e vfStreamEv) base() vfStreamEv { return e }

type vfStreamEv0 struct{ vfStreamEv }
type vfStreamEv1 struct{ vfStreamEv }
type vfStreamEv2 struct{ vfStreamEv }
type vfStreamEv3 struct{ vfStreamEv }
type vfStreamEv4 struct{ vfStreamEv }

func vfStreamEvOf(t int) any {
	switch t {
	case 0:
		return vfStreamEv0{}
	case 1:
		return vfStreamEv1{}
	case 2:
		return vfStreamEv2{}
	case 3:
		return vfStreamEv3{}
	}
	return vfStreamEv4{}
}

// ---- generic oracles over a finished run ------------------------------------------------------

type vfViol struct{ Kind, Key, Detail string }

type vfRunInfo struct {
	zombies map[string]bool // paths that were zombie at some observation point
	dead    map[string]bool // paths expected to be terminated (for probes)
}

func vfLast(p string) string { return p[strings.LastIndex(p, "/")+1:] }

// oracleOverlap: C01 (Context half): at most one handler in flight per actor.
func (w *vfWorld) oracleOverlap() (v []vfViol) {
	w.mu.Lock()
	defer w.mu.Unlock()
	if len(w.overlaps) > 0 {
		v = append(v, vfViol{"c01-overlap", "Context", fmt.Sprintf("two handler invocations in flight at once for %v", w.overlaps)})
	}
	return
}

// stashIDs returns ids of vfCmd currently in stashes of registered actors.
func (w *vfWorld) stashIDs() map[int]string {
	out := map[int]string{}
	acts, _ := w.registry()
	for p, c := range acts {
		for _, e := range c.stash {
			if cmd, ok := e.Message().(*vfCmd); ok {
				out[cmd.ID] = p
			}
		}
	}
	return out
}

// oracleLedger: C03 — every user message sent (before Stop) is processed | stashed | dead-lettered, exactly once.
// zombiePaths: targets that were zombies at some point (allowed to consume silently).
func (w *vfWorld) oracleLedger(zombiePaths map[string]bool) (v []vfViol) {
	log := w.snapshot()
	proc := map[int][]string{}
	dl := map[int]int{}
	for _, e := range log {
		if e.Kind == "recv" && e.Msg == "U" {
			proc[e.ID] = append(proc[e.ID], e.Path)
		}
		if e.Kind == "obs" && e.Msg == "dl:U" {
			dl[e.ID]++
		}
	}
	st := w.stashIDs()
	w.mu.Lock()
	ids := make([]int, 0, len(w.sent))
	for id := range w.sent {
		ids = append(ids, id)
	}
	sort.Ints(ids)
	sent := map[int]vfSent{}
	for id, s := range w.sent {
		sent[id] = *s
	}
	w.mu.Unlock()
	for _, id := range ids {
		s := sent[id]
		if s.AfterStop || s.Remote {
			continue
		}
		inStash := 0
		if _, ok := st[id]; ok {
			inStash = 1
		}
		// a stashed message was processed once when it was stashed: count distinct fates
		np := len(proc[id])
		total := dl[id]
		if inStash == 1 {
			total++ // in stash (its earlier 'processing' was the Stash call itself)
		} else if np > 0 {
			total++
		}
		key := "via=" + s.Via
		if w.wasZombie(s.TargetPath, zombiePaths) && !s.PostRelease {
			if dl[id] > 1 {
				v = append(v, vfViol{"c03-dead-letter-duplicated", key, fmt.Sprintf("message #%d to zombie %s dead-lettered %d times", id, s.TargetPath, dl[id])})
			}
			continue
		}
		switch {
		case total == 0:
			v = append(v, vfViol{"c03-message-lost", key, fmt.Sprintf("message #%d sent to %s (ref obtained via %s) was neither processed, nor stashed, nor dead-lettered", id, s.TargetPath, s.Via)})
		case dl[id] > 1:
			v = append(v, vfViol{"c03-dead-letter-duplicated", key, fmt.Sprintf("message #%d to %s dead-lettered %d times", id, s.TargetPath, dl[id])})
		case total > 1 && s.Op == "stash":
			// a message that stashed itself was processed once, may have been unstashed and then dead-lettered
			// because its actor died before handling it again: processed + dead letter is legitimate here
		case total > 1:
			v = append(v, vfViol{"c03-two-fates", key, fmt.Sprintf("message #%d to %s: processed by %v, in stash=%d, dead letters=%d", id, s.TargetPath, proc[id], inStash, dl[id])})
		}
		for _, p := range proc[id] {
			if p != s.TargetPath {
				v = append(v, vfViol{"c03-wrong-recipient", key, fmt.Sprintf("message #%d addressed to %s was processed by %s", id, s.TargetPath, p)})
			}
		}
		// processed more than once is only legal through Stash/Unstash (the stasher sees it again)
	}
	return
}

// oracleLifecycle: C05 — per-path trace automaton.
func (w *vfWorld) oracleLifecycle() (v []vfViol) {
	log := w.snapshot()
	type st struct {
		launched   bool // inside an incarnation
		sawKill    bool
		dead       bool // own OnKilled seen, no OnLaunch since
		incs       int
		firstInst  int
		lastInst   int
		provider   bool
	}
	states := map[string]*st{}
	restarted := map[string]int{}
	spawned := map[string]int{}
	w.mu.Lock()
	bad := map[int]bool{}
	for k, b := range w.badInst {
		bad[k] = b
	}
	specs := map[string]*vfSpec{}
	for k, s := range w.specs {
		specs[k] = s
	}
	instSpecs := map[int]*vfSpec{}
	for k, s := range w.instSpec {
		instSpecs[k] = s
	}
	w.mu.Unlock()
	_ = specs
	for _, e := range log {
		if e.Kind == "obs" && e.Msg == "restarted" {
			restarted[e.Path]++
		}
		if e.Kind == "obs" && e.Msg == "spawned" {
			spawned[e.Path]++
		}
		if e.Kind != "recv" || strings.HasPrefix(e.Msg, "hook:") {
			continue // hooks are not messages: Prelaunch legitimately runs before ActorOf can report a duplicate name
		}
		if bad[e.Inst] {
			v = append(v, vfViol{"c05-failed-spawn-received", "ActorOf", fmt.Sprintf("instance %d (%s) received %s although ActorOf returned an error", e.Inst, e.Path, e.Msg)})
			continue
		}
		s := states[e.Path]
		if s == nil {
			s = &st{}
			states[e.Path] = s
		}
		own := e.Msg == "D:"+e.Path
		switch {
		case e.Msg == "L":
			if s.launched && !s.dead {
				v = append(v, vfViol{"c05-second-onlaunch-in-incarnation", "OnLaunch", fmt.Sprintf("%s saw OnLaunch twice in one incarnation (t%d) %s", e.Path, e.T, e.Aux)})
			}
			s.launched, s.sawKill, s.dead = true, false, false
			s.incs++
			if e.Beh != "base" {
				v = append(v, vfViol{"c05-behaviour-not-reset", "restart", fmt.Sprintf("%s: OnLaunch of incarnation %d handled by behaviour %q (stack not reset)", e.Path, s.incs, e.Beh)})
			}
			// the spec of the instance itself decides (a path can be re-spawned from a different spec in between)
			if sp := instSpecs[e.Inst]; sp != nil && sp.Provider && s.incs > 1 && e.Inst == s.lastInst {
				v = append(v, vfViol{"c05-provider-instance-reused", "restart", fmt.Sprintf("%s: incarnation %d still uses actor instance %d although a provider is configured", e.Path, s.incs, e.Inst)})
			}
			s.lastInst = e.Inst
		default:
			if !s.launched {
				v = append(v, vfViol{"c05-message-before-onlaunch", e.Msg, fmt.Sprintf("%s saw %s (t%d) before any OnLaunch", e.Path, e.Msg, e.T)})
				s.launched = true // report once
			} else if s.dead {
				v = append(v, vfViol{"c05-message-after-own-onkilled", e.Msg, fmt.Sprintf("%s saw %s (t%d) after the OnKilled naming itself", e.Path, e.Msg, e.T)})
			}
			if e.Msg == "K" {
				s.sawKill = true
			}
			if own {
				s.dead = true
			}
			if s.lastInst != 0 && e.Inst != s.lastInst && !own && e.Msg != "K" {
				// messages of one incarnation go to the instance that was launched
				v = append(v, vfViol{"c05-stale-instance", e.Msg, fmt.Sprintf("%s: %s handled by instance %d but the incarnation was launched on instance %d", e.Path, e.Msg, e.Inst, s.lastInst)})
			}
		}
	}
	for p, s := range states {
		if p == "/vfobs" {
			continue
		}
		if s.incs > spawned[p]+restarted[p] {
			v = append(v, vfViol{"c05-onlaunch-count", "restart", fmt.Sprintf("%s received %d OnLaunch but was spawned %d time(s) and restarted %d time(s)", p, s.incs, spawned[p], restarted[p])})
		}
		if s.incs < spawned[p]+restarted[p] && !w.stopped.Load() {
			// a spawn/restart whose OnLaunch never arrived: legitimate only if the actor was killed before processing it
			if !s.dead {
				v = append(v, vfViol{"c05-onlaunch-missing", "restart", fmt.Sprintf("%s received %d OnLaunch but was spawned %d time(s) and restarted %d time(s) and is not terminated", p, s.incs, spawned[p], restarted[p])})
			}
		}
	}
	// OnLaunch is delivered to the launched actor and nobody else: sender of OnLaunch must be the parent
	for _, e := range log {
		if e.Kind == "recv" && e.Msg == "L" && e.Aux != "" {
			from := strings.TrimPrefix(e.Aux, "from=")
			parent := e.Path[:strings.LastIndex(e.Path, "/")]
			if parent == "" {
				parent = "/"
			}
			if from != parent {
				v = append(v, vfViol{"c05-onlaunch-to-wrong-actor", "OnLaunch", fmt.Sprintf("%s received an OnLaunch sent by %s (expected its parent %s): an OnLaunch meant for another actor", e.Path, from, parent)})
			}
		}
	}
	return
}

// oracleKillOrder: C06 — ActorKilledEvent order (descendants first), exactly one event per termination,
// exactly one OnKilled at the parent per terminated child incarnation.
func (w *vfWorld) oracleKillOrder() (v []vfViol) {
	log := w.snapshot()
	killedAt := map[string][]int64{}
	spawnedAt := map[string][]int64{}
	for _, e := range log {
		if e.Kind == "obs" && e.Msg == "killed" {
			killedAt[e.Path] = append(killedAt[e.Path], e.T)
		}
		if e.Kind == "obs" && e.Msg == "spawned" {
			spawnedAt[e.Path] = append(spawnedAt[e.Path], e.T)
		}
	}
	for p, ts := range killedAt {
		if len(ts) > len(spawnedAt[p]) && p != "/" {
			v = append(v, vfViol{"c06-killed-event-duplicated", "ActorKilledEvent", fmt.Sprintf("%s: %d ActorKilledEvent for %d spawn(s)", p, len(ts), len(spawnedAt[p]))})
		}
	}
	// order: for every killed event of X at time t, every descendant Y of X spawned before t must have a
	// killed event before t (observer mailbox order == Publish order; all publishes come through one actor).
	for x, ts := range killedAt {
		for _, t := range ts {
			prefix := x + "/"
			if x == "/" {
				prefix = "/"
			}
			for y, ss := range spawnedAt {
				if !strings.HasPrefix(y, prefix) || y == x || strings.HasPrefix(y, "/vfobs") {
					continue
				}
				// latest spawn of y before t
				var sp int64 = -1
				for _, s := range ss {
					if s < t && s > sp {
						sp = s
					}
				}
				if sp < 0 {
					continue
				}
				ok := false
				for _, k := range killedAt[y] {
					if k > sp && k < t {
						ok = true
					}
				}
				if !ok {
					v = append(v, vfViol{"c06-ancestor-reported-before-descendant", "ActorKilledEvent", fmt.Sprintf("ActorKilledEvent(%s) at t%d but descendant %s (spawned t%d) had not been reported terminated before it (its events: %v)", x, t, y, sp, killedAt[y])})
				}
			}
		}
	}
	// parent notices
	notice := map[string]map[string]int{} // parent -> child -> count
	for _, e := range log {
		if e.Kind == "recv" && strings.HasPrefix(e.Msg, "D:") {
			child := strings.TrimPrefix(e.Msg, "D:")
			if child == e.Path {
				continue
			}
			if notice[e.Path] == nil {
				notice[e.Path] = map[string]int{}
			}
			notice[e.Path][child]++
		}
	}
	for p, ts := range killedAt {
		if p == "/" || strings.Count(p, "/") < 2 {
			continue // parent is the root guard (not a recording actor)
		}
		parent := p[:strings.LastIndex(p, "/")]
		if w.wasZombie(parent, nil) {
			continue // a zombie parent runs no user code: its behaviour cannot record the notice
		}
		got := notice[parent][p]
		// a notice that reached the parent after the parent itself had terminated is dead-lettered: it still counts,
		// but only a terminated parent may have dead-lettered notices
		dlN := 0
		for _, e := range log {
			if e.Kind == "obs" && e.Msg == "dl:D:"+p && e.Path == parent {
				dlN++
			}
		}
		if dlN > 0 && len(killedAt[parent]) > 0 {
			got += dlN
		}
		if got > len(ts) {
			v = append(v, vfViol{"c06-parent-notified-twice", "OnKilled", fmt.Sprintf("%s received %d OnKilled(%s) for %d termination(s)", parent, got, p, len(ts))})
		}
		if got < len(ts) {
			v = append(v, vfViol{"c06-parent-not-notified", "OnKilled", fmt.Sprintf("%s received %d OnKilled(%s) for %d termination(s)", parent, got, p, len(ts))})
		}
	}
	return
}

// oracleWatchers: C06 — a watcher registered (ActorWatchedEvent seen, not unwatched) when X terminates receives
// exactly one OnKilled(X); nobody else (except X's parent) receives one. Registration and termination events of X
// are both published by X itself, so their order at the single observer is X's program order.
func (w *vfWorld) oracleWatchers() (v []vfViol) {
	log := w.snapshot()
	type key struct{ x, wt string }
	active := map[key]bool{}
	expected := map[key]int{}
	got := map[key]int{}
	everKilled := map[string]bool{}
	everReg := map[key]bool{}
	for _, e := range log {
		switch {
		case e.Kind == "obs" && e.Msg == "watched":
			active[key{e.Path, e.Aux}] = true
			everReg[key{e.Path, e.Aux}] = true
		case e.Kind == "obs" && e.Msg == "unwatched":
			delete(active, key{e.Path, e.Aux})
		case e.Kind == "obs" && e.Msg == "killed":
			everKilled[e.Path] = true
			for k := range active {
				if k.x == e.Path {
					expected[k]++
					delete(active, k)
				}
			}
		case e.Kind == "recv" && strings.HasPrefix(e.Msg, "D:"):
			child := strings.TrimPrefix(e.Msg, "D:")
			parent := child[:strings.LastIndex(child, "/")]
			if child != e.Path && parent != e.Path {
				got[key{child, e.Path}]++
			}
		}
	}
	for k := range everReg {
		if everKilled[k.wt] || w.wasZombie(k.wt, nil) {
			continue // the watcher terminated at some point (its notices may be dead-lettered) or was a zombie (runs no user code)
		}
		if got[k] != expected[k] {
			v = append(v, vfViol{"c06-watcher-notice-count", "OnKilled", fmt.Sprintf("watcher %s of %s: %d termination(s) of %s happened while the watch was registered, but the watcher received %d OnKilled", k.wt, k.x, expected[k], k.x, got[k])})
		}
	}
	for k, n := range got {
		if !everReg[k] && n > 0 {
			v = append(v, vfViol{"c06-unregistered-watcher-notified", "OnKilled", fmt.Sprintf("%s received %d OnKilled(%s) without a registered watch", k.wt, n, k.x)})
		}
	}
	return
}

// oracleReleased: C06 — terminated paths are released everywhere.
func (w *vfWorld) oracleReleased(paths []string) (v []vfViol) {
	es := w.sys.eventStream.(*eventStream)
	acts, _ := w.registry()
	for _, p := range paths {
		if _, ok := acts[p]; ok {
			v = append(v, vfViol{"c06-path-not-released", "registry", fmt.Sprintf("%s is still registered after its termination", p)})
		}
		if r, err := w.sys.FindActor(w.sys.Ref().GetAddress() + p); err == nil && r != nil {
			v = append(v, vfViol{"c06-path-not-released", "FindActor", fmt.Sprintf("FindActor(%s) still succeeds after termination", p)})
		}
		es.mu.RLock()
		if ts, ok := es.subscriberTypes[p]; ok && len(ts) > 0 {
			v = append(v, vfViol{"c06-subscription-leak", "eventStream.subscriberTypes", fmt.Sprintf("%s still has %d subscription(s) after termination", p, len(ts))})
		}
		for typ, subs := range es.subscribers {
			if _, ok := subs[p]; ok {
				v = append(v, vfViol{"c06-subscription-leak", "eventStream.subscribers", fmt.Sprintf("%s still subscribed to %v after termination", p, typ)})
			}
		}
		es.mu.RUnlock()
	}
	return
}

// oracleUnpaused: C09 — no registered, non-zombie actor is left paused / non-running at quiescence.
func (w *vfWorld) oracleUnpaused() (v []vfViol) {
	acts, _ := w.registry()
	for p, c := range acts {
		if c.zombie {
			continue
		}
		if c.mailbox.IsPaused() {
			v = append(v, vfViol{"c09-left-paused", "mailbox", fmt.Sprintf("%s is registered, not a zombie, and its mailbox is still paused at quiescence (state=%d)", p, atomic.LoadInt32(&c.state))})
		}
		if st := atomic.LoadInt32(&c.state); st != running {
			v = append(v, vfViol{"c09-half-stopped", "state", fmt.Sprintf("%s is still registered at quiescence in state %d (1=killing 2=killed) with %d children", p, st, len(c.children))})
		}
		if um, ok := c.mailbox.(*mailbox.UnboundedMailbox); ok {
			_ = um
		}
	}
	return
}

// oracleTree: C10/C06 — registry == set reachable from the root through children; parents list their children.
func (w *vfWorld) oracleTree() (v []vfViol) {
	acts, _ := w.registry()
	reach := map[string]bool{}
	var walk func(c *Context)
	walk = func(c *Context) {
		for p := range c.children {
			if reach[p] {
				continue
			}
			reach[p] = true
			if cc, ok := acts[p]; ok {
				walk(cc)
			}
		}
	}
	if w.sys.Context != nil {
		walk(w.sys.Context)
	}
	for p := range acts {
		if !reach[p] {
			v = append(v, vfViol{"tree-registered-but-unreachable", "registry", fmt.Sprintf("%s is registered but no live parent lists it as a child", p)})
		}
	}
	for p := range reach {
		if _, ok := acts[p]; !ok {
			v = append(v, vfViol{"tree-child-listed-but-unregistered", "children", fmt.Sprintf("%s is listed as a child but is not registered", p)})
		}
	}
	return
}

// traceOf renders the per-actor traces compactly (for witnesses and samples).
func (w *vfWorld) traceOf() string {
	log := w.snapshot()
	per := map[string][]string{}
	var obs []string
	for _, e := range log {
		switch e.Kind {
		case "recv":
			m := e.Msg
			if e.ID >= 0 {
				m += fmt.Sprintf("#%d", e.ID)
			}
			if strings.HasPrefix(m, "D:") {
				m = "D(" + vfLast(m) + ")"
			}
			per[e.Path] = append(per[e.Path], m)
		case "obs":
			m := e.Msg + ":" + vfLast(e.Path)
			if e.ID >= 0 {
				m += fmt.Sprintf("#%d", e.ID)
			}
			obs = append(obs, m)
		}
	}
	ks := make([]string, 0, len(per))
	for k := range per {
		ks = append(ks, k)
	}
	sort.Strings(ks)
	var sb strings.Builder
	for _, k := range ks {
		fmt.Fprintf(&sb, "%s: %s | ", k, strings.Join(per[k], " "))
	}
	fmt.Fprintf(&sb, "EVENTS: %s", strings.Join(obs, " "))
	return sb.String()
}
