//go:build verif

package actor

import (
	"bytes"
	"encoding/hex"
	"encoding/json"
	"fmt"
	"net"
	"os"
	"os/exec"
	"path/filepath"
	"reflect"
	"runtime/metrics"
	"strconv"
	"strings"
	"syscall"
	"testing"
	"time"

	"github.com/kercylan98/vivid"
	"github.com/kercylan98/vivid/internal/cluster"
	"github.com/kercylan98/vivid/internal/mailbox"
	"github.com/kercylan98/vivid/internal/messages"
	"github.com/kercylan98/vivid/internal/remoting"
	"github.com/kercylan98/vivid/internal/remoting/serialize"
	"github.com/kercylan98/vivid/internal/verifrt"
)

// C13 — the codec is total (DESIGN §4 C13). Sentinels around single-threaded calls: panic, allocation, time;
// process-fatal errors (stack overflow, out of memory) are caught by running the cases in child processes that
// journal every case before it starts.

type vfHCase struct {
	Target string // envelope | message | reader:<name> | vv | prim:<shape> | handshake | enc:<what>
	Data   []byte
	Origin string // which valid encoding it was derived from and how
	Enc    func() (err error)
}

func vfHMutations(valid []byte, origin string, target string, out *[]vfHCase) {
	add := func(d []byte, how string) {
		*out = append(*out, vfHCase{Target: target, Data: d, Origin: origin + " " + how})
	}
	L := len(valid)
	for i := 0; i < L; i++ { // every truncation
		add(append([]byte(nil), valid[:i]...), fmt.Sprintf("truncated@%d", i))
	}
	for i := 0; i < L; i++ { // every single-byte corruption, 4 substitutions
		if L > 600 && i > 200 && i%5 != 0 {
			continue
		}
		for _, f := range []func(byte) byte{func(b byte) byte { return b ^ 0x01 }, func(b byte) byte { return b ^ 0x80 }, func(b byte) byte { return 0xff }, func(b byte) byte { return 0 }} {
			d := append([]byte(nil), valid...)
			if nb := f(d[i]); nb != d[i] {
				d[i] = nb
				add(d, fmt.Sprintf("byte@%d", i))
			}
		}
	}
	for i := 0; i+4 <= L; i++ { // every 4-byte window replaced by hostile lengths
		if i > 128 && i%4 != 0 {
			continue
		}
		for _, v := range [][4]byte{{0, 0, 0, 0}, {0, 0, 0, 1}, {0x80, 0, 0, 0}, {0xff, 0xff, 0xff, 0xff}, {0x7f, 0xff, 0xff, 0xff}, {0, 1, 0, 0}} {
			d := append([]byte(nil), valid...)
			copy(d[i:], v[:])
			add(d, fmt.Sprintf("len32@%d=%x", i, v))
		}
	}
}

type vfPrimTarget struct {
	name string
	mk   func() any // pointer to a pre-populated target
}

type vfHidden struct{ shard, seq uint64 }
type vfHalfHidden struct {
	N   uint32
	pad [4]uint64
}
type vfHolder struct {
	Tag   string
	Hid   []vfHidden
	After uint16
}

var vfHPrimTargets = []vfPrimTarget{
	{"[]uint64", func() any { v := []uint64{1, 2, 3}; return &v }},
	{"[]string", func() any { v := []string{"a", "b"}; return &v }},
	{"[][]uint32", func() any { v := [][]uint32{{1}, {2, 3}}; return &v }},
	{"[4]int64", func() any { v := [4]int64{1, 2, 3, 4}; return &v }},
	{"vfPrimA", func() any { v := vfPrimA{U8: 1, S: "keep", Raw: []byte{1}}; return &v }},
	{"vfPrimB", func() any { v := vfPrimB{Strs: []string{"keep"}}; return &v }},
	{"[]vfPrimA", func() any { v := []vfPrimA{{S: "keep"}}; return &v }},
	// elements that take no bytes on the wire: the empty struct, a struct whose fields are all unexported (non-zero size in
	// memory, zero bytes encoded), and one that mixes both kinds - the embedded count is then bounded by nothing but a cap
	{"[]struct{}", func() any { v := []struct{}{{}, {}}; return &v }},
	{"[]vfHidden", func() any { v := []vfHidden{{}, {}, {}}; return &v }},
	{"[]vfHalfHidden", func() any { v := []vfHalfHidden{{N: 1}, {N: 2}}; return &v }},
	{"vfHolder", func() any { v := vfHolder{Tag: "keep", Hid: []vfHidden{{}, {}}, After: 7}; return &v }},
	{"string", func() any { v := "keep"; return &v }},
	{"[]byte", func() any { v := []byte("keep"); return &v }},
}

// vfHChildTimeout: how long a batch (40 000 cases, normally a few seconds) may take before the case named by the journal
// is declared a hang. Must stay well below the unit's own timeout so that the verdict is a violation, not a lost shard.
func vfHChildTimeout() time.Duration {
	if verifrt.Thorough() {
		return 4 * time.Minute
	}
	return 40 * time.Second
}

func vfHBuildCases() []vfHCase {
	var cases []vfHCase
	reg := messages.VfRegistry()
	var names []string
	for _, n := range verifrt.SortedKeys(reg) {
		if strings.HasPrefix(n, "Test") || strings.HasPrefix(n, "test") || n == "vfPoisonMsg" {
			continue
		}
		names = append(names, n)
	}
	codec := vfJSONCodec{}
	perType := 3
	if verifrt.Thorough() {
		perType = 12
	}
	for _, name := range names {
		desc := reg[name]
		g := &vfGen{rng: verifrt.NewRand(verifrt.CaseSeed("hostile-"+name, 0)), reg: reg, names: names}
		for k := 0; k < perType; k++ {
			x, ok := g.value(desc, 0)
			if !ok {
				continue
			}
			if body, err := messages.VfWrite(desc, x, codec); err == nil {
				vfHMutations(body, fmt.Sprintf("%s#%d body", name, k), "reader:"+name, &cases)
			}
			w := messages.NewWriter()
			if err := w.WriteMessage(x, codec); err == nil {
				vfHMutations(append([]byte(nil), w.Bytes()...), fmt.Sprintf("%s#%d message", name, k), "message", &cases)
			}
			snd, _ := NewRef("10.0.0.1:7000", "/s/@future@1")
			rcv, _ := NewRef("localhost", "/r")
			if data, err := serialize.EncodeEnvelopWithRemoting(codec, mailbox.NewEnvelop(k%2 == 0, snd, rcv, x)); err == nil {
				vfHMutations(data, fmt.Sprintf("%s#%d envelope", name, k), "envelope", &cases)
			}
		}
	}
	// version vectors
	for k, m := range []map[string]uint64{{}, {"a": 1}, {"a": 1, "b": 1<<63 - 1, "node-3": 7}} {
		w := messages.NewWriter()
		if err := cluster.WriteVersionVector(w, cluster.VfMakeVV(m)); err == nil {
			vfHMutations(append([]byte(nil), w.Bytes()...), fmt.Sprintf("vv#%d", k), "vv", &cases)
		}
	}
	// handshake
	{
		w := messages.NewWriter()
		_ = w.WriteFrom("127.0.0.1:18080")
		vfHMutations(append([]byte(nil), w.Bytes()...), "handshake", "handshake", &cases)
	}
	// primitive targets: valid encodings of their own shape + mutations, and every mutation also into foreign shapes
	for _, pt := range vfHPrimTargets {
		w := messages.NewWriter()
		if err := w.WriteFrom(pt.mk()); err == nil {
			vfHMutations(append([]byte(nil), w.Bytes()...), "prim "+pt.name, "prim:"+pt.name, &cases)
		}
	}
	// raw hostile strings into every target
	rng := verifrt.NewRand(verifrt.CaseSeed("hostile-random", 0))
	nrand := 300
	if verifrt.Thorough() {
		nrand = 5000
	}
	targets := []string{"envelope", "message", "vv", "handshake"}
	for _, n := range names {
		targets = append(targets, "reader:"+n)
	}
	for _, pt := range vfHPrimTargets {
		targets = append(targets, "prim:"+pt.name)
	}
	fixed := [][]byte{{}, {0}, {0xff, 0xff, 0xff, 0xff}, {0x7f, 0xff, 0xff, 0xff}, {0x80, 0, 0, 0}, {0, 0, 0, 4, 0xff, 0xff, 0xff, 0xff}, bytes.Repeat([]byte{0xff}, 64), bytes.Repeat([]byte{0}, 64), {0, 0, 0x10, 0}, {0, 1, 0, 0, 0, 0, 0, 0}}
	for _, tg := range targets {
		for fi, f := range fixed {
			cases = append(cases, vfHCase{Target: tg, Data: f, Origin: fmt.Sprintf("fixed#%d", fi)})
		}
		for k := 0; k < nrand/10; k++ {
			d := make([]byte, rng.Intn(96))
			for i := range d {
				d[i] = byte(rng.Intn(256))
			}
			if len(d) >= 4 && rng.Chance(50) { // plausible small length prefix
				d[0], d[1], d[2], d[3] = 0, 0, 0, byte(rng.Intn(16))
			}
			cases = append(cases, vfHCase{Target: tg, Data: d, Origin: "random"})
		}
	}
	// large frames (up to the 4 MiB frame limit)
	for _, sz := range []int{1 << 16, 1 << 20, 4<<20 - 64} {
		d := bytes.Repeat([]byte{0x01}, sz)
		cases = append(cases, vfHCase{Target: "envelope", Data: d, Origin: fmt.Sprintf("large %d x 0x01", sz)})
		d2 := make([]byte, sz)
		d2[0], d2[1], d2[2], d2[3] = byte((sz - 4) >> 24), byte((sz - 4) >> 16), byte((sz - 4) >> 8), byte(sz - 4)
		cases = append(cases, vfHCase{Target: "envelope", Data: d2, Origin: fmt.Sprintf("large %d: one payload of len-4", sz)})
		cases = append(cases, vfHCase{Target: "message", Data: d2, Origin: fmt.Sprintf("large %d: one payload of len-4", sz)})
	}
	// encode side: unsupported values must be errors
	type named8 uint8
	type withNamed struct{ N named8 }
	type withPtr struct{ P *int32 }
	type withIface struct{ I any }
	var nilPtr *uint32
	var nilIface any
	type namedPtr *uint32
	type withPP struct{ PP **int64 }
	i32, i64, u32, u16, str := int32(7), int64(-9), uint32(11), uint16(3), "s"
	pI32, pI64, pStr := &i32, &i64, &str
	ppStr := &pStr
	np := namedPtr(&u32)
	sl := []*uint16{&u16, &u16}
	encVals := []struct {
		what string
		v    any
	}{
		{"int", int(5)}, {"uint", uint(5)}, {"uintptr", uintptr(5)}, {"named-uint8", named8(3)}, {"struct{named-uint8}", withNamed{3}},
		{"map", map[string]int32{"a": 1}}, {"chan", make(chan int)}, {"func", func() {}}, {"complex128", complex(1, 2)},
		{"nil-interface", nilIface}, {"nil-pointer", nilPtr}, {"struct{nil *int32}", withPtr{}}, {"struct{nil any}", withIface{}},
		{"[]int", []int{1, 2}}, {"*struct{map}", &struct{ M map[string]string }{M: map[string]string{"a": "b"}}},
		{"[]chan", []chan int{nil}}, {"**uint32(nil inner)", &nilPtr},
		// values that reach a supported kind only through several pointer levels or a named pointer type
		{"**int32", &pI32}, {"***string", &ppStr}, {"struct{**int64}", withPP{&pI64}}, {"[]**int32", []**int32{&pI32, &pI32}},
		{"named *uint32", namedPtr(&u32)}, {"*named *uint32", &np}, {"[2]*[]*uint16", [2]*[]*uint16{&sl, &sl}},
	}
	for _, ev := range encVals {
		ev := ev
		origin := "unsupported value"
		if strings.Contains(ev.what, "**") || strings.Contains(ev.what, "named *") || strings.Contains(ev.what, "]*[") {
			origin = "pointer chain" // encodable or not: either outcome is fine, it must only be decided without crashing
		}
		cases = append(cases, vfHCase{Target: "enc:Write(" + ev.what + ")", Origin: origin, Enc: func() error {
			w := messages.NewWriter()
			if err := w.WriteFrom(ev.v); err != nil {
				return err
			}
			return w.Err()
		}})
	}
	type plain struct{ A int32 }
	encMsgs := []struct {
		what string
		v    any
	}{
		{"nil", nil}, {"non-pointer struct", plain{1}}, {"string", "hello"}, {"int", 7}, {"nil *OnKill", (*vivid.OnKill)(nil)},
		{"*PongMessage{Ping:nil}", &messages.PongMessage{}}, {"*JoinRequest{nil state} (legal)", &cluster.JoinRequest{}},
		{"*PipeResult{Message:nil}", &vivid.PipeResult{}}, {"*SchedulerMessage{Message:nil}", &SchedulerMessage{Reference: "r"}},
		{"*PipeResult{Message:int}", &vivid.PipeResult{Message: 5}}, {"*unregistered without codec support", &plain{1}},
		{"slice", []byte("x")}, {"func", func() {}},
	}
	legal := map[string]bool{"*JoinRequest{nil state} (legal)": true, "*PipeResult{Message:nil}": true, "*SchedulerMessage{Message:nil}": true}
	for _, em := range encMsgs {
		em := em
		for _, via := range []string{"WriteMessage", "EncodeEnvelop"} {
			via := via
			cases = append(cases, vfHCase{Target: "enc:" + via + "(" + em.what + ")", Origin: "unsupported message", Enc: func() error {
				var err error
				if via == "WriteMessage" {
					err = messages.NewWriter().WriteMessage(em.v, vfJSONCodec{})
				} else {
					_, err = serialize.EncodeEnvelopWithRemoting(vfJSONCodec{}, mailbox.NewEnvelop(false, nil, nil, em.v))
				}
				if em.what == "nil" && via == "WriteMessage" && err == nil {
					return fmt.Errorf("legal value (sentinel): a nil nested message has an explicit wire form")
				}
				if legal[em.what] && err == nil {
					return fmt.Errorf("legal value (sentinel)")
				}
				return err
			}})
		}
	}
	// no Codec configured (nil): external messages must be refused with an error, both directions
	cases = append(cases, vfHCase{Target: "enc:WriteMessage(user message, nil codec)", Origin: "nil codec", Enc: func() error {
		return messages.NewWriter().WriteMessage(&vfUserMsg{A: "x"}, nil)
	}})
	cases = append(cases, vfHCase{Target: "enc:EncodeEnvelop(user message, nil codec)", Origin: "nil codec", Enc: func() error {
		_, err := serialize.EncodeEnvelopWithRemoting(nil, mailbox.NewEnvelop(false, nil, nil, &vfUserMsg{A: "x"}))
		return err
	}})
	{
		w := messages.NewWriter()
		_ = w.WriteMessage(&vfUserMsg{A: "x"}, vfJSONCodec{})
		data := append([]byte(nil), w.Bytes()...)
		cases = append(cases, vfHCase{Target: "enc:ReadMessage(user message, nil codec)", Origin: "nil codec", Enc: func() error {
			_, err := messages.NewReader(data).ReadMessage(nil)
			return err
		}})
		env, _ := serialize.EncodeEnvelopWithRemoting(vfJSONCodec{}, mailbox.NewEnvelop(false, nil, nil, &vfUserMsg{A: "x"}))
		cases = append(cases, vfHCase{Target: "enc:DecodeEnvelop(user message, nil codec)", Origin: "nil codec", Enc: func() error {
			_, _, _, _, _, _, err := serialize.DecodeEnvelopWithRemoting(nil, env)
			return err
		}})
	}
	return cases
}

func vfAllocBytes() uint64 {
	s := []metrics.Sample{{Name: "/gc/heap/allocs:bytes"}}
	metrics.Read(s)
	return s[0].Value.Uint64()
}

type vfHResult struct {
	Done     int                 `json:"done"`
	Viols    []verifrt.Violation `json:"viols"`
	ByTarget map[string]int64    `json:"by_target"`
	Errors   int64               `json:"errors"`
	Oks      int64               `json:"oks"`
	MaxAlloc uint64              `json:"max_alloc"`
	MaxNs    int64               `json:"max_ns"`
}

func vfHRunOne(c vfHCase, idx int, res *vfHResult) {
	viol := func(kind, f string, a ...any) {
		key := c.Target
		if i := strings.Index(key, "#"); i > 0 {
			key = key[:i]
		}
		res.Viols = append(res.Viols, verifrt.Violation{Kind: kind, Key: key, Case: idx, Detail: fmt.Sprintf(f, a...) + fmt.Sprintf(" | target=%s origin=%s input(%d bytes)=%s", c.Target, c.Origin, len(c.Data), hex.EncodeToString(c.Data[:minInt(len(c.Data), 96)]))})
	}
	codec := vfJSONCodec{}
	reg := messages.VfRegistry()
	a0 := vfAllocBytes()
	t0 := time.Now()
	var err error
	var panicked any
	func() {
		defer func() { panicked = recover() }()
		switch {
		case c.Enc != nil:
			err = c.Enc()
			if err == nil && c.Origin != "pointer chain" {
				viol("c13-unsupported-value-encoded", "%s returned nil: an unsupported value was encoded without an error", c.Target)
			}
		case c.Target == "envelope":
			_, _, _, _, _, _, err = serialize.DecodeEnvelopWithRemoting(codec, c.Data)
		case c.Target == "message":
			_, err = messages.NewReader(c.Data).ReadMessage(codec)
		case strings.HasPrefix(c.Target, "reader:"):
			_, _, err = messages.VfRead(reg[strings.TrimPrefix(c.Target, "reader:")], c.Data, codec)
		case c.Target == "vv":
			_, err = cluster.ReadVersionVector(messages.NewReader(c.Data))
		case c.Target == "handshake":
			a, b := net.Pipe()
			go func() {
				_ = a.SetWriteDeadline(time.Now().Add(2 * time.Second))
				if len(c.Data) > 0 {
					_, _ = a.Write(c.Data)
				}
				_ = a.Close()
			}()
			h := &remoting.Handshake{}
			err = h.Wait(b)
			_ = b.Close()
		case strings.HasPrefix(c.Target, "prim:"):
			name := strings.TrimPrefix(c.Target, "prim:")
			for _, pt := range vfHPrimTargets {
				if pt.name != name {
					continue
				}
				tgt := pt.mk()
				before := vfNorm(reflect.ValueOf(tgt).Elem(), 0)
				err = messages.NewReader(c.Data).Read(tgt)
				if err != nil {
					if after := vfNorm(reflect.ValueOf(tgt).Elem(), 0); after != before {
						viol("c13-failed-decode-modified-target", "Reader.Read into %s failed (%v) but changed the caller's value: %s -> %s", name, err, verifrt.Short(before, 200), verifrt.Short(after, 200))
					}
				}
			}
		}
	}()
	dt := time.Since(t0)
	alloc := vfAllocBytes() - a0
	if panicked != nil {
		viol("c13-panic", "panic: %v", panicked)
	}
	limit := uint64(16<<20 + 64*len(c.Data))
	if alloc > limit {
		viol("c13-runaway-allocation", "allocated %d bytes for %d input bytes (limit %d)", alloc, len(c.Data), limit)
	}
	if dt > 2*time.Second && c.Target != "handshake" {
		viol("c13-slow", "took %v", dt)
	}
	if alloc > res.MaxAlloc {
		res.MaxAlloc = alloc
	}
	if dt.Nanoseconds() > res.MaxNs {
		res.MaxNs = dt.Nanoseconds()
	}
	if err != nil {
		res.Errors++
	} else {
		res.Oks++
	}
	tk := c.Target
	if i := strings.Index(tk, ":"); i > 0 {
		tk = tk[:i]
	}
	res.ByTarget[tk]++
}

func minInt(a, b int) int {
	if a < b {
		return a
	}
	return b
}

// child mode: run cases [from,to), journal each index before it starts, write the result file at the end.
func vfHChild(t *testing.T) {
	from, _ := strconv.Atoi(os.Getenv("VERIF_C13_FROM"))
	to, _ := strconv.Atoi(os.Getenv("VERIF_C13_TO"))
	dir := os.Getenv("VERIF_C13_DIR")
	// an address-space limit turns a runaway allocation into a prompt, attributable fatal error
	_ = syscall.Setrlimit(syscall.RLIMIT_AS, &syscall.Rlimit{Cur: 8 << 30, Max: 8 << 30})
	cases := vfHBuildCases()
	if to > len(cases) {
		to = len(cases)
	}
	jf, _ := os.OpenFile(filepath.Join(dir, "journal"), os.O_CREATE|os.O_WRONLY|os.O_TRUNC, 0o644)
	res := &vfHResult{ByTarget: map[string]int64{}}
	flush := func() {
		b, _ := json.Marshal(res)
		_ = os.WriteFile(filepath.Join(dir, "result.tmp"), b, 0o644)
		_ = os.Rename(filepath.Join(dir, "result.tmp"), filepath.Join(dir, "result"))
	}
	for i := from; i < to; i++ {
		if jf != nil {
			_, _ = jf.WriteAt([]byte(fmt.Sprintf("%-12d", i)), 0)
		}
		vfHRunOne(cases[i], i, res)
		res.Done = i + 1
		if (i-from)%5000 == 4999 {
			flush()
		}
		if len(res.Viols) > 400 {
			res.Viols = res.Viols[:400]
		}
	}
	flush()
}

func TestVerif_codechostile(t *testing.T) {
	if os.Getenv("VERIF_C13_CHILD") == "1" {
		vfHChild(t)
		return
	}
	R := verifrt.NewReport("codechostile", "for valid encodings of every registered type (registered reader, WriteMessage form, envelope form), of version vectors, of the handshake and of 9 primitive shapes: every truncation, every single-byte corruption (4 substitutions per position), every 4-byte window replaced by 6 hostile lengths; fixed hostile strings and PRNG byte strings into every decoder; frames up to the 4 MiB limit; each fed single-threaded to DecodeEnvelopWithRemoting / Reader.ReadMessage / the registered reader / ReadVersionVector / Reader.Read into a pre-populated target / Handshake.Wait over net.Pipe; encode side: one value of every unsupported reflect.Kind and 13 malformed messages through Writer.Write, WriteMessage and EncodeEnvelopWithRemoting. Sentinels: panic, allocation per call > 16 MiB + 64 x len(input), > 2 s per call, failed Read modifies the caller's value, unsupported value encoded without error; cases run in child processes under an 8 GiB address-space limit that journal each case before it starts, so stack overflow / out of memory / hang are attributed to an input. non-trivial+distinct = cases executed (each a distinct (target, input)) that made the decoder return an error or the encoder refuse")
	defer R.Flush()
	cases := vfHBuildCases()
	sh, nsh := verifrt.Shard()
	per := (len(cases) + nsh - 1) / nsh
	lo, hi := sh*per, (sh+1)*per
	if hi > len(cases) {
		hi = len(cases)
	}
	R.ObsMax("max:cases_total", int64(len(cases)))
	dir, err := os.MkdirTemp(os.Getenv("VERIF_OUT"), "c13-")
	if err != nil {
		t.Fatal(err)
	}
	from := lo
	batch := 40000
	crashes, hangs := 0, 0
	for from < hi {
		to := from + batch
		if to > hi {
			to = hi
		}
		_ = os.Remove(filepath.Join(dir, "result"))
		_ = os.Remove(filepath.Join(dir, "journal"))
		cmd := exec.Command(os.Args[0], "-test.run", "^TestVerif_codechostile$", "-test.timeout", "10m")
		cmd.Env = append(os.Environ(), "VERIF_C13_CHILD=1", "VERIF_C13_FROM="+strconv.Itoa(from), "VERIF_C13_TO="+strconv.Itoa(to), "VERIF_C13_DIR="+dir, "GOTRACEBACK=single")
		var out bytes.Buffer
		cmd.Stdout, cmd.Stderr = &out, &out
		done := make(chan error, 1)
		_ = cmd.Start()
		go func() { done <- cmd.Wait() }()
		var werr error
		timedOut := false
		select {
		case werr = <-done:
		case <-time.After(vfHChildTimeout()):
			_ = cmd.Process.Kill()
			werr = <-done
			timedOut = true
		}
		var res vfHResult
		if b, e := os.ReadFile(filepath.Join(dir, "result")); e == nil {
			_ = json.Unmarshal(b, &res)
		}
		merge := func() {
			for _, v := range res.Viols {
				R.Violate(v.Case, v.Kind, v.Key, v.Detail, nil)
			}
			for k, n := range res.ByTarget {
				R.Obs("cases_"+k, n)
			}
			R.Obs("decoder_returned_error_or_encoder_refused", res.Errors)
			R.Obs("accepted", res.Oks)
			R.ObsMax("max:alloc_bytes_one_call", int64(res.MaxAlloc))
			R.ObsMax("max:ns_one_call", res.MaxNs)
			R.Evaluations += int64(res.Oks + res.Errors)
			R.Distinct += res.Errors
		}
		if werr == nil && res.Done >= to {
			merge()
			from = to
			continue
		}
		// the child died: the journal names the case
		jb, _ := os.ReadFile(filepath.Join(dir, "journal"))
		idx, _ := strconv.Atoi(strings.TrimSpace(string(jb)))
		if idx < from || idx >= to {
			R.Inconcl(fmt.Sprintf("child for cases [%d,%d) died without a usable journal (%v): %s", from, to, werr, verifrt.Short(out.String(), 600)))
			from = to
			continue
		}
		crashes++
		c := cases[idx]
		kind := "c13-crash"
		if timedOut {
			kind = "c13-hang"
			hangs++
		}
		log := out.String()
		first := ""
		for _, ln := range strings.Split(log, "\n") {
			if strings.HasPrefix(ln, "fatal error:") || strings.HasPrefix(ln, "panic:") || strings.HasPrefix(ln, "runtime:") {
				first = ln
				break
			}
		}
		key := c.Target
		R.Violate(idx, kind, key, fmt.Sprintf("the process died while handling this case: %s | target=%s origin=%s input(%d bytes)=%s\n%s", first, c.Target, c.Origin, len(c.Data), hex.EncodeToString(c.Data[:minInt(len(c.Data), 96)]), verifrt.Short(log, 3000)), nil)
		R.Flush() // the verdict must survive whatever this input does to the rest of the shard
		// results of the cases before the killer are re-derived by re-running them; continue after the killer
		if idx > from {
			// best effort: run [from, idx) again to keep their verdicts
			cmd2 := exec.Command(os.Args[0], "-test.run", "^TestVerif_codechostile$", "-test.timeout", "10m")
			cmd2.Env = append(os.Environ(), "VERIF_C13_CHILD=1", "VERIF_C13_FROM="+strconv.Itoa(from), "VERIF_C13_TO="+strconv.Itoa(idx), "VERIF_C13_DIR="+dir)
			_ = os.Remove(filepath.Join(dir, "result"))
			done2 := make(chan error, 1)
			_ = cmd2.Start()
			go func() { done2 <- cmd2.Wait() }()
			var e error
			select {
			case e = <-done2:
			case <-time.After(vfHChildTimeout()):
				_ = cmd2.Process.Kill()
				e = <-done2
				if e == nil {
					e = fmt.Errorf("timeout")
				}
			}
			if e == nil {
				res = vfHResult{}
				if b, e := os.ReadFile(filepath.Join(dir, "result")); e == nil {
					_ = json.Unmarshal(b, &res)
					merge()
				}
			}
		}
		from = idx + 1
		if hangs >= 2 {
			// two inputs made the decoder hang (or crawl) in this shard: the verdicts are recorded, whatever else is slow now
			// would only cost the shard its time limit
			R.Note("two inputs made the decoder hang in this shard: remaining cases of the shard skipped")
			_ = os.RemoveAll(dir)
			R.Flush()
			return
		}
		if crashes > 25 {
			R.Inconcl("more than 25 process deaths in this shard: remaining cases skipped")
			break
		}
	}
	_ = os.RemoveAll(dir)
	for i := lo; i < hi && i < lo+3; i++ {
		c := cases[i+(hi-lo)/2%maxInt(1, hi-lo-3)]
		R.Sample(map[string]any{"target": c.Target, "origin": c.Origin, "input_hex": hex.EncodeToString(c.Data[:minInt(len(c.Data), 48)]), "input_len": len(c.Data)})
	}
}

func maxInt(a, b int) int {
	if a > b {
		return a
	}
	return b
}
