//go:build verif

package actor

import (
	"bytes"
	"fmt"
	"sync"
	"sync/atomic"
	"testing"

	"github.com/kercylan98/vivid"
	"github.com/kercylan98/vivid/internal/mailbox"
	"github.com/kercylan98/vivid/internal/remoting/serialize"
	"github.com/kercylan98/vivid/internal/verifrt"
)

// C12 — codecrace: the round trip under concurrency. On a real system many goroutines encode at once (one sender per
// remote address, replies, cluster gossip) and readers / writers are pooled, so an encode can be handed a writer another
// encode has just released. 16 goroutines round-trip envelopes whose payloads (16 B .. 256 KiB, registered custom message
// and user-codec message alike) carry the goroutine's id and a counter in every byte position; each decoded payload must
// be the one that goroutine encoded. Race detector build: a report with a frame of the library is a violation as well.

func TestVerif_codecrace(t *testing.T) {
	R := verifrt.NewReport("codecrace", "16 goroutines round-trip envelopes (EncodeEnvelopWithRemoting / DecodeEnvelopWithRemoting) at the same time, payload sizes 16 B .. 256 KiB with a per-goroutine, per-iteration byte pattern, through a registered custom message and through the user codec; every decoded payload must equal the one that goroutine encoded and the bytes returned by an encode must not change while the goroutine still holds them; race-detector build. non-trivial+distinct = goroutines that completed their iterations")
	defer R.Flush()
	if !verifrt.Mine(0) {
		return
	}
	iters := verifrt.EnvInt("VERIF_N", 500)
	if verifrt.Thorough() {
		iters = 30000
	}
	const G = 16
	codec := vfJSONCodec{}
	var wrong, mutated, total atomic.Int64
	var firstMu sync.Mutex
	first := ""
	var wg sync.WaitGroup
	for g := 0; g < G; g++ {
		wg.Add(1)
		go func(g int) {
			defer wg.Done()
			rng := verifrt.NewRand(verifrt.CaseSeed("codecrace", g))
			snd, _ := NewRef("127.0.0.1:7001", fmt.Sprintf("/s%d", g))
			rcv, _ := NewRef("127.0.0.1:7002", fmt.Sprintf("/r%d", g))
			for i := 0; i < iters; i++ {
				size := []int{16, 100, 1000, 4096, 65536, 262144}[rng.Intn(6)]
				if size > 4096 && rng.Intn(4) != 0 {
					size = 300
				}
				pat := byte(g*16 + i%16)
				payload := bytes.Repeat([]byte{pat}, size)
				var msg vivid.Message
				if i%2 == 0 {
					msg = &vfCustomMsg{ID: uint64(g)<<32 | uint64(i), Name: fmt.Sprintf("g%d-i%d", g, i), Raw: payload}
				} else {
					msg = &vfUserMsg{A: fmt.Sprintf("g%d-i%d", g, i), B: int64(i), C: payload}
				}
				data, err := serialize.EncodeEnvelopWithRemoting(codec, mailbox.NewEnvelop(false, snd, rcv, msg))
				if err != nil {
					wrong.Add(1)
					continue
				}
				held := append([]byte(nil), data...)
				_, _, _, _, _, dm, err := serialize.DecodeEnvelopWithRemoting(codec, data)
				total.Add(1)
				ok := err == nil
				var got []byte
				var name string
				switch m := dm.(type) {
				case *vfCustomMsg:
					got, name = m.Raw, m.Name
				case *vfUserMsg:
					got, name = m.C, m.A
				default:
					ok = false
				}
				if ok && (!bytes.Equal(got, payload) || name != fmt.Sprintf("g%d-i%d", g, i)) {
					ok = false
				}
				if !ok {
					wrong.Add(1)
					firstMu.Lock()
					if first == "" {
						first = fmt.Sprintf("goroutine %d iteration %d (payload %d x 0x%02x): decoded name=%q payload=%d bytes starting %x, err=%v", g, i, size, pat, name, len(got), got[:minInt(8, len(got))], err)
					}
					firstMu.Unlock()
				}
				if !bytes.Equal(data, held) {
					mutated.Add(1)
				}
			}
			R.Nontrivial(fmt.Sprintf("g%d", g))
		}(g)
	}
	wg.Wait()
	R.Evaluations += total.Load()
	R.Obs("round_trips", total.Load())
	if n := wrong.Load(); n > 0 {
		R.Violate(0, "c12-value-changed", "concurrent round trip", fmt.Sprintf("%d of %d concurrent round trips came back as a different value; first: %s", n, total.Load(), first), nil)
	}
	if n := mutated.Load(); n > 0 {
		R.Violate(0, "c12-encoded-bytes-mutated", "concurrent round trip", fmt.Sprintf("%d encodings changed while the goroutine that made them still held them", n), nil)
	}
	R.Sample(map[string]any{"goroutines": G, "iterations_each": iters, "wrong": wrong.Load(), "mutated": mutated.Load()})
}
