//go:build verif

package actor

import (
	"bytes"
	"errors"
	"fmt"
	"math"
	"reflect"
	"sort"
	"strings"
	"testing"
	"time"

	"github.com/kercylan98/vivid"
	"github.com/kercylan98/vivid/internal/cluster"
	"github.com/kercylan98/vivid/internal/mailbox"
	"github.com/kercylan98/vivid/internal/messages"
	"github.com/kercylan98/vivid/internal/remoting/serialize"
	"github.com/kercylan98/vivid/internal/verifrt"
)

// C12 — decode(encode(x)) == x for every registered message type and the primitive layer (DESIGN §4 C12).
// The registry is enumerated at run time (messages.VfRegistry, an overlaid verif export).

// ---- user messages handled by a user Codec ------------------------------------------------------

type vfUserMsg struct {
	A string
	B int64
	C []byte
}

type vfJSONCodec struct{} // (historic name) a binary-safe user codec: A and C length-prefixed, B fixed 8 bytes

func (vfJSONCodec) Encode(m vivid.Message) ([]byte, error) {
	um, ok := m.(*vfUserMsg)
	if !ok {
		return nil, fmt.Errorf("vf user codec: unsupported %T", m)
	}
	w := messages.NewWriter()
	if err := w.WriteFrom("vfUserMsg", um.A, um.B, um.C); err != nil {
		return nil, err
	}
	return append([]byte(nil), w.Bytes()...), nil
}

func (vfJSONCodec) Decode(b []byte) (vivid.Message, error) {
	r := messages.NewReader(b)
	var tag string
	var um vfUserMsg
	if err := r.ReadInto(&tag, &um.A, &um.B, &um.C); err != nil {
		return nil, err
	}
	if tag != "vfUserMsg" || r.Pos() != len(b) {
		return nil, fmt.Errorf("vf user codec: not a vfUserMsg")
	}
	return &um, nil
}

// a message registered through the public RegisterCustomMessage API
type vfCustomMsg struct {
	ID   uint64
	Name string
	Tags []string
	F    float64
	Ok   bool
	Raw  []byte
	Arr  [3]int16
}

func init() {
	vivid.RegisterCustomMessage[*vfCustomMsg]("vfCustomMsg",
		func(message any, r *messages.Reader, _ messages.Codec) error {
			m := message.(*vfCustomMsg)
			return r.ReadInto(&m.ID, &m.Name, &m.Tags, &m.F, &m.Ok, &m.Raw, &m.Arr)
		},
		func(message any, w *messages.Writer, _ messages.Codec) error {
			m := message.(*vfCustomMsg)
			return w.WriteFrom(m.ID, m.Name, m.Tags, m.F, m.Ok, m.Raw, m.Arr)
		})
}

// ---- canonical form for comparison -----------------------------------------------------------------

var (
	vfTypTime     = reflect.TypeOf(time.Time{})
	vfTypRef      = reflect.TypeOf((*vivid.ActorRef)(nil)).Elem()
	vfTypErr      = reflect.TypeOf((*error)(nil)).Elem()
	vfTypVV       = reflect.TypeOf(cluster.VersionVector{})
	vfTypDuration = reflect.TypeOf(time.Duration(0))
)

// vfNorm renders a value as a canonical string (nil == empty for maps/slices; time by UnixNano+zero flag; refs by
// address|path; errors by code/message; version vectors by their non-zero entries).
func vfNorm(v reflect.Value, depth int) string {
	if depth > 12 {
		return "<deep>"
	}
	if !v.IsValid() {
		return "<nil>"
	}
	t := v.Type()
	switch {
	case t == vfTypTime:
		tm := v.Interface().(time.Time)
		if tm.IsZero() {
			return "time(zero)"
		}
		return fmt.Sprintf("time(%d)", tm.UnixNano())
	case t == vfTypVV:
		e := cluster.VfVVEntries(v.Interface().(cluster.VersionVector))
		ks := verifrt.SortedKeys(e)
		s := "vv{"
		for _, k := range ks {
			s += fmt.Sprintf("%q:%d,", k, e[k])
		}
		return s + "}"
	case t.Implements(vfTypRef) && t.Kind() == reflect.Interface || t == vfTypRef:
		if v.IsNil() {
			return "ref(nil)"
		}
		r := v.Interface().(vivid.ActorRef)
		return fmt.Sprintf("ref(%s|%s)", r.GetAddress(), r.GetPath())
	case t == vfTypErr:
		if v.IsNil() {
			return "err(nil)"
		}
		e := v.Interface().(error)
		var ve *vivid.Error
		if errors.As(e, &ve) {
			return fmt.Sprintf("err(%d,%q)", ve.GetCode(), ve.GetMessage())
		}
		// documented normalisation: a non-vivid error travels as ErrorException wrapping its text
		w := vivid.ErrorException.With(e)
		return fmt.Sprintf("err(%d,%q)", w.GetCode(), w.GetMessage())
	}
	switch v.Kind() {
	case reflect.Ptr, reflect.Interface:
		if v.IsNil() {
			return "<nil>"
		}
		if v.Kind() == reflect.Interface {
			// special message kinds with unexported fields
			if a, p, m, ok := cluster.VfSingletonForwardedFields(v.Interface()); ok {
				return fmt.Sprintf("sfm(%s|%s|%s)", a, p, vfNorm(reflect.ValueOf(m), depth+1))
			}
			if ve, ok := v.Interface().(*vivid.Error); ok {
				return fmt.Sprintf("verr(%d,%q)", ve.GetCode(), ve.GetMessage())
			}
			if r, ok := v.Interface().(vivid.ActorRef); ok {
				return fmt.Sprintf("ref(%s|%s)", r.GetAddress(), r.GetPath())
			}
		}
		return "&" + vfNorm(v.Elem(), depth+1)
	case reflect.Struct:
		if v.CanAddr() {
			if a, p, m, ok := cluster.VfSingletonForwardedFields(v.Addr().Interface()); ok {
				return fmt.Sprintf("sfm(%s|%s|%s)", a, p, vfNorm(reflect.ValueOf(m), depth+1))
			}
		}
		var parts []string
		for i := 0; i < v.NumField(); i++ {
			f := t.Field(i)
			if f.PkgPath != "" {
				continue
			}
			parts = append(parts, f.Name+":"+vfNorm(v.Field(i), depth+1))
		}
		return t.Name() + "{" + strings.Join(parts, ",") + "}"
	case reflect.Map:
		var parts []string
		for _, k := range v.MapKeys() {
			parts = append(parts, fmt.Sprintf("%q=>%s", fmt.Sprint(k.Interface()), vfNorm(v.MapIndex(k), depth+1)))
		}
		sort.Strings(parts)
		return "map[" + strings.Join(parts, ",") + "]"
	case reflect.Slice, reflect.Array:
		if t.Elem().Kind() == reflect.Uint8 && v.Kind() == reflect.Slice {
			return fmt.Sprintf("bytes(%x)", v.Bytes())
		}
		var parts []string
		for i := 0; i < v.Len(); i++ {
			parts = append(parts, vfNorm(v.Index(i), depth+1))
		}
		return "[" + strings.Join(parts, ",") + "]"
	case reflect.Float32, reflect.Float64:
		return fmt.Sprintf("f(%x)", math.Float64bits(v.Float()))
	case reflect.String:
		return fmt.Sprintf("%q", v.String())
	}
	return fmt.Sprint(v.Interface())
}

// ---- value generation ------------------------------------------------------------------------------

type vfGen struct {
	rng    *verifrt.Rand
	reg    map[string]*messages.MessageDesc
	names  []string
	edge   bool // choose edge values preferably
	budget int
}

var vfStrPool = []string{"", "a", "node-1", "127.0.0.1:8080", "/a/b/c", "héllo wörld", "\x00\xff\xfe", strings.Repeat("x", 300), "日本語", "with \"quotes\" and \n newline"}

func (g *vfGen) str() string {
	if g.rng.Chance(70) {
		return vfStrPool[g.rng.Intn(len(vfStrPool))]
	}
	b := make([]byte, g.rng.Intn(40))
	for i := range b {
		b[i] = byte(g.rng.Intn(256))
	}
	return string(b)
}

func (g *vfGen) ref() vivid.ActorRef {
	switch g.rng.Intn(4) {
	case 0:
		return nil
	case 1:
		r, _ := NewRef("localhost", "/local/actor")
		return r
	case 2:
		r, _ := NewRef("10.1.2.3:9000", "/remote/a/@future@1234")
		return r
	}
	r, _ := NewRef("example.org:1", "/")
	return r
}

func (g *vfGen) timeVal() time.Time {
	switch g.rng.Intn(6) {
	case 0:
		return time.Time{}
	case 1:
		return time.Unix(0, 0)
	case 2:
		return time.Unix(0, 1)
	case 3:
		return time.Unix(0, math.MaxInt64)
	case 4:
		return time.Unix(0, -1)
	}
	return time.Unix(0, int64(g.rng.Uint64()>>2))
}

func (g *vfGen) message(depth int) any {
	// nested message: a registered type or a user-codec message
	if depth > 2 || g.rng.Chance(30) {
		return &vfUserMsg{A: g.str(), B: int64(g.rng.Uint64()), C: []byte(g.str())}
	}
	for try := 0; try < 10; try++ {
		name := g.names[g.rng.Intn(len(g.names))]
		if v, ok := g.value(g.reg[name], depth+1); ok {
			return v
		}
	}
	return &vfUserMsg{A: "fallback"}
}

func (g *vfGen) errVal() error {
	switch g.rng.Intn(4) {
	case 0:
		return nil
	case 1:
		return vivid.ErrorFutureTimeout
	case 2:
		return vivid.ErrorNotFound.WithMessage(g.str())
	}
	return fmt.Errorf("plain %s", g.str())
}

// fill sets v (settable) to a generated value of its type; returns false for unsupported kinds.
func (g *vfGen) fill(v reflect.Value, depth int) bool {
	t := v.Type()
	g.budget--
	switch {
	case t == vfTypTime:
		v.Set(reflect.ValueOf(g.timeVal()))
		return true
	case t == vfTypVV:
		m := map[string]uint64{}
		for k := g.rng.Intn(4); k > 0; k-- {
			m[[]string{"n1", "n2", "n3", "a-very-long-node-id"}[g.rng.Intn(4)]] = []uint64{0, 1, 2, 1 << 40, 1<<63 - 1}[g.rng.Intn(5)]
		}
		v.Set(reflect.ValueOf(cluster.VfMakeVV(m)))
		return true
	case t == vfTypRef:
		if r := g.ref(); r != nil {
			v.Set(reflect.ValueOf(r))
		}
		return true
	case t == vfTypErr:
		if e := g.errVal(); e != nil {
			v.Set(reflect.ValueOf(e))
		}
		return true
	case t.Kind() == reflect.Interface && t.NumMethod() == 0: // vivid.Message
		v.Set(reflect.ValueOf(g.message(depth)))
		return true
	}
	switch v.Kind() {
	case reflect.String:
		v.SetString(g.str())
	case reflect.Bool:
		v.SetBool(g.rng.Bool())
	case reflect.Int, reflect.Int32:
		pool := []int64{0, 1, -1, math.MaxInt32, math.MinInt32, 7}
		v.SetInt(pool[g.rng.Intn(len(pool))]) // int fields are written as int32: stay inside int32
	case reflect.Int8:
		v.SetInt([]int64{0, 1, -1, 127, -128}[g.rng.Intn(5)])
	case reflect.Int16:
		v.SetInt([]int64{0, 1, -1, math.MaxInt16, math.MinInt16}[g.rng.Intn(5)])
	case reflect.Int64:
		pool := []int64{0, 1, -1, math.MaxInt64, math.MinInt64, int64(g.rng.Uint64())}
		v.SetInt(pool[g.rng.Intn(len(pool))])
	case reflect.Uint8:
		v.SetUint([]uint64{0, 1, 255, uint64(g.rng.Intn(256))}[g.rng.Intn(4)])
	case reflect.Uint16:
		v.SetUint([]uint64{0, 1, math.MaxUint16}[g.rng.Intn(3)])
	case reflect.Uint32:
		v.SetUint([]uint64{0, 1, math.MaxUint32, 1 << 31}[g.rng.Intn(4)])
	case reflect.Uint64:
		v.SetUint([]uint64{0, 1, math.MaxUint64, 1 << 63, g.rng.Uint64()}[g.rng.Intn(5)])
	case reflect.Float32:
		v.SetFloat([]float64{0, 1, -1, math.MaxFloat32, math.SmallestNonzeroFloat32, float64(float32(math.Inf(1)))}[g.rng.Intn(6)])
	case reflect.Float64:
		v.SetFloat([]float64{0, 1, -1.5, math.MaxFloat64, math.SmallestNonzeroFloat64, math.Inf(-1)}[g.rng.Intn(6)])
	case reflect.Ptr:
		if t.Elem().Kind() != reflect.Struct || depth > 8 {
			return false
		}
		if g.rng.Chance(15) {
			return true // nil pointer
		}
		p := reflect.New(t.Elem())
		if !g.fill(p.Elem(), depth+1) {
			return false
		}
		v.Set(p)
	case reflect.Struct:
		for i := 0; i < v.NumField(); i++ {
			if t.Field(i).PkgPath != "" {
				continue
			}
			if !g.fill(v.Field(i), depth+1) {
				return false
			}
		}
	case reflect.Map:
		n := []int{0, 0, 1, 2, 5}[g.rng.Intn(5)]
		if n == 0 && g.rng.Bool() {
			return true // nil map
		}
		m := reflect.MakeMap(t)
		for i := 0; i < n; i++ {
			k := reflect.New(t.Key()).Elem()
			e := reflect.New(t.Elem()).Elem()
			if !g.fill(k, depth+1) || !g.fill(e, depth+1) {
				return false
			}
			if e.Kind() == reflect.Ptr && e.IsNil() {
				continue
			}
			m.SetMapIndex(k, e)
		}
		v.Set(m)
	case reflect.Slice:
		n := []int{0, 0, 1, 3, 17}[g.rng.Intn(5)]
		if n == 0 && g.rng.Bool() {
			return true
		}
		s := reflect.MakeSlice(t, n, n)
		for i := 0; i < n; i++ {
			if !g.fill(s.Index(i), depth+1) {
				return false
			}
		}
		v.Set(s)
	case reflect.Array:
		for i := 0; i < v.Len(); i++ {
			if !g.fill(v.Index(i), depth+1) {
				return false
			}
		}
	default:
		return false
	}
	return true
}

// value builds a message instance (pointer to struct) of the registered type.
func (g *vfGen) value(desc *messages.MessageDesc, depth int) (any, bool) {
	t := desc.MessageTypeOf()
	switch desc.MessageName() {
	case "clusterSingletonForwardedMessage":
		var snd vivid.ActorRef
		a, p := g.str(), "/"+strings.Trim(g.str(), "/")
		if g.rng.Bool() {
			snd = g.ref()
		}
		return cluster.VfNewSingletonForwarded(a, p, snd, g.message(depth+1)), true
	case "Error":
		switch g.rng.Intn(3) {
		case 0:
			return vivid.ErrorNotFound, true
		case 1:
			return vivid.ErrorException.WithMessage(g.str()), true
		}
		return vivid.ErrorFutureTimeout.With(fmt.Errorf("cause %s", g.str())), true
	}
	p := reflect.New(t)
	if !g.fill(p.Elem(), depth) {
		return nil, false
	}
	// domain constraints stated by the writers themselves
	switch m := p.Interface().(type) {
	case *messages.PongMessage:
		if m.Ping == nil { // the writer dereferences Ping: nil is C13's business (must be an error), not a round-trip value
			m.Ping = &messages.PingMessage{Time: g.timeVal()}
		}
	case *cluster.JoinRetryTick:
	}
	return p.Interface(), true
}

func vfRoundTripMessage(x any, codec messages.Codec) (y any, consumedAll bool, err error) {
	w := messages.NewWriter()
	if err = w.WriteMessage(x, codec); err != nil {
		return nil, false, fmt.Errorf("encode: %w", err)
	}
	data := append([]byte(nil), w.Bytes()...)
	r := messages.NewReader(data)
	y, err = r.ReadMessage(codec)
	if err != nil {
		return nil, false, fmt.Errorf("decode: %w", err)
	}
	return y, r.Pos() == len(data), nil
}

func TestVerif_codecrt(t *testing.T) {
	R := verifrt.NewReport("codecrt", "the wire registry is enumerated at run time; for every registered type: reflection-driven values (edge pools per kind: zero/one/extremes, empty/long/non-UTF-8 strings, nil/empty/large maps and slices, nil/local/remote refs, nil/vivid/plain errors, nested registered and user-codec messages) through Writer.WriteMessage -> Reader.ReadMessage and through the envelope layout x system flag x {nil, local, remote} sender/receiver; canonical-form comparison; reader must consume exactly the bytes written; primitive layer: PRNG shapes of struct/slice/array nesting over the kinds both Writer.Write and Reader.Read support. non-trivial+distinct = distinct (type, canonical value) pairs whose canonical value differs from the type's zero value")
	defer R.Flush()
	reg := messages.VfRegistry()
	var names []string
	for _, n := range verifrt.SortedKeys(reg) {
		// types registered by the repository's own *_test.go files of this package (e.g. TestRemoteMessage, whose codec
		// fails on purpose) are not part of the library's registry
		if strings.HasPrefix(n, "Test") || strings.HasPrefix(n, "test") || n == "vfPoisonMsg" {
			continue
		}
		names = append(names, n)
	}
	codec := vfJSONCodec{}
	perType := verifrt.EnvInt("VERIF_N", 2000)
	if verifrt.Thorough() {
		perType = 100000
	}
	sh, nsh := verifrt.Shard()
	R.ObsMax("max:registered_types", int64(len(names)))
	uncovered := 0
	for ti, name := range names {
		desc := reg[name]
		g := &vfGen{rng: verifrt.NewRand(verifrt.CaseSeed("codecrt-"+name, sh)), reg: reg, names: names}
		zero, okz := g.value(desc, 0)
		_ = zero
		if !okz {
			uncovered++
			R.Inconcl("no value could be generated for registered type " + name)
			continue
		}
		zeroNorm := vfNorm(reflect.New(desc.MessageTypeOf()), 0)
		typeViol := map[string]bool{}
		var heldData, heldCopy []byte
		var heldName string
		n := perType / nsh
		for k := 0; k < n; k++ {
			x, okx := g.value(desc, 0)
			if !okx {
				continue
			}
			idx := ti*1000000 + k
			if k == 0 {
				R.Journal(idx, name)
			}
			R.Eval()
			nx := vfNorm(reflect.ValueOf(x), 0)
			var y any
			var all bool
			var err error
			func() {
				defer func() {
					if r := recover(); r != nil {
						err = fmt.Errorf("panic: %v", r)
					}
				}()
				y, all, err = vfRoundTripMessage(x, codec)
			}()
			bad := func(kind, f string, a ...any) {
				if !typeViol[kind] {
					typeViol[kind] = true
					R.Violate(idx, kind, name, fmt.Sprintf(f, a...)+" | value: "+verifrt.Short(nx, 1500), map[string]any{"type": name, "value": nx})
				}
			}
			switch {
			case err != nil:
				bad("c12-roundtrip-error", "round trip of a valid %s failed: %v", name, err)
				continue
			case !all:
				bad("c12-reader-position", "decoding %s did not consume exactly the bytes written", name)
			}
			if ny := vfNorm(reflect.ValueOf(y), 0); ny != nx {
				bad("c12-value-changed", "decode(encode(x)) != x for %s: got %s", name, verifrt.Short(ny, 1500))
			}
			if nx != zeroNorm {
				R.Nontrivial(name + "|" + nx)
			}
			// envelope layer
			if k%4 == 0 {
				sys := g.rng.Bool()
				snd, rcv := g.ref(), g.ref()
				env := mailbox.NewEnvelop(sys, snd, rcv, x)
				// failures in between: a decode of damaged bytes and an encode that fails inside the Writer must leave nothing
				// behind (readers and writers are pooled) - the valid envelope that follows must round-trip as ever
				if g.rng.Intn(100) < 35 {
					func() {
						defer func() { _ = recover() }()
						if heldCopy != nil && len(heldCopy) > 2 {
							cut := 1 + g.rng.Intn(len(heldCopy)-1)
							if _, _, _, _, _, _, e := serialize.DecodeEnvelopWithRemoting(codec, heldCopy[:cut]); e != nil {
								R.Obs("failing_decodes_in_between", 1)
							}
						}
						if _, e := serialize.EncodeEnvelopWithRemoting(codec, mailbox.NewEnvelop(false, snd, rcv, &vfPoisonMsg{N: k})); e != nil {
							R.Obs("failing_encodes_in_between", 1)
						}
					}()
				}
				var data []byte
				var derr error
				var dsys bool
				var sa, sp, ra, rp string
				var dm any
				func() {
					defer func() {
						if r := recover(); r != nil {
							derr = fmt.Errorf("panic: %v", r)
						}
					}()
					data, derr = serialize.EncodeEnvelopWithRemoting(codec, env)
					if derr == nil {
						dsys, sa, sp, ra, rp, dm, derr = serialize.DecodeEnvelopWithRemoting(codec, data)
					}
				}()
				if derr != nil {
					bad("c12-envelope-error", "envelope round trip of %s failed: %v", name, derr)
					continue
				}
				wa, wp, wra, wrp := "", "", "", ""
				if snd != nil {
					wa, wp = snd.GetAddress(), snd.GetPath()
				}
				if rcv != nil {
					wra, wrp = rcv.GetAddress(), rcv.GetPath()
				}
				if dsys != sys || sa != wa || sp != wp || ra != wra || rp != wrp {
					bad("c12-envelope-header-changed", "envelope header changed: system %v->%v sender %s|%s->%s|%s receiver %s|%s->%s|%s", sys, dsys, wa, wp, sa, sp, wra, wrp, ra, rp)
				}
				if ny := vfNorm(reflect.ValueOf(dm), 0); ny != nx {
					bad("c12-value-changed", "envelope payload changed for %s: got %s", name, verifrt.Short(ny, 1500))
				}
				// history monitor: the bytes returned for the previous envelope must still be that envelope after later
				// encodes (the sender hands them to the connection after other goroutines may have encoded more)
				if heldData != nil && !bytes.Equal(heldData, heldCopy) {
					bad("c12-encoded-bytes-mutated", "the bytes EncodeEnvelopWithRemoting returned for an earlier envelope (%s) were overwritten by a later encode: %d bytes, first difference at offset %d", heldName, len(heldData), vfFirstDiff(heldData, heldCopy))
				}
				heldData, heldCopy, heldName = data, append([]byte(nil), data...), name
			}
			if k < 1 && ti%7 == 0 {
				R.Sample(map[string]any{"type": name, "value": verifrt.Short(nx, 400)})
			}
		}
		R.Obs("values_"+name, int64(n))
	}
	R.Obs("uncovered_types", int64(uncovered))
	vfPrimitiveLayer(R, verifrt.NewRand(verifrt.CaseSeed("codecrt-prim", sh)), perType*4/nsh)
}

// vfPoisonMsg is a registered message whose writer hands the Writer a value it cannot write (a plain int): the encode
// fails INSIDE the Writer (sticky error), which is what an application bug in a custom writer looks like. It is never
// round-tripped; it only makes operations fail in between valid ones.
type vfPoisonMsg struct{ N int }

func init() {
	vivid.RegisterCustomMessage[*vfPoisonMsg]("vfPoisonMsg",
		func(message any, r *messages.Reader, _ messages.Codec) error { return nil },
		func(message any, w *messages.Writer, _ messages.Codec) error {
			return w.WriteFrom(message.(*vfPoisonMsg).N, map[string]int{"x": 1})
		})
}

func vfFirstDiff(a, b []byte) int {
	for i := 0; i < len(a) && i < len(b); i++ {
		if a[i] != b[i] {
			return i
		}
	}
	return minInt(len(a), len(b))
}

// ---- primitive layer -------------------------------------------------------------------------------

type vfPrimA struct {
	U8  uint8
	I8  int8
	U16 uint16
	I16 int16
	U32 uint32
	I32 int32
	U64 uint64
	I64 int64
	F32 float32
	F64 float64
	B   bool
	S   string
	Raw []byte
}

type vfPrimB struct {
	A      vfPrimA
	L      []vfPrimA
	Arr    [2]vfPrimA
	LL     [][]int32
	Strs   []string
	AS     [3]string
	hidden int //nolint:unused // unexported fields are skipped by both sides
}

type vfPrimC struct {
	B   vfPrimB
	LB  []vfPrimB
	Arr [2][2]uint16
}

func vfPrimitiveLayer(R *verifrt.Report, rng *verifrt.Rand, n int) {
	g := &vfGen{rng: rng}
	shapes := []func() reflect.Value{
		func() reflect.Value { return reflect.New(reflect.TypeOf(vfPrimA{})) },
		func() reflect.Value { return reflect.New(reflect.TypeOf(vfPrimB{})) },
		func() reflect.Value { return reflect.New(reflect.TypeOf(vfPrimC{})) },
		func() reflect.Value { return reflect.New(reflect.TypeOf([]vfPrimA{})) },
		func() reflect.Value { return reflect.New(reflect.TypeOf([4]int64{})) },
		func() reflect.Value { return reflect.New(reflect.TypeOf([]string{})) },
		func() reflect.Value { return reflect.New(reflect.TypeOf([][]uint64{})) },
		func() reflect.Value { return reflect.New(reflect.TypeOf(uint32(0))) },
		func() reflect.Value { return reflect.New(reflect.TypeOf("")) },
		func() reflect.Value { return reflect.New(reflect.TypeOf(float64(0))) },
		func() reflect.Value { return reflect.New(reflect.TypeOf([]byte{})) },
	}
	seen := map[string]bool{}
	for k := 0; k < n; k++ {
		R.Eval()
		p := shapes[rng.Intn(len(shapes))]()
		if !g.fill(p.Elem(), 0) {
			continue
		}
		nx := vfNorm(p.Elem(), 0)
		w := messages.NewWriter()
		var err error
		var q reflect.Value
		var pos, ln int
		func() {
			defer func() {
				if r := recover(); r != nil {
					err = fmt.Errorf("panic: %v", r)
				}
			}()
			// both by value and by pointer
			if k%2 == 0 {
				err = w.WriteFrom(p.Interface())
			} else {
				err = w.WriteFrom(p.Elem().Interface())
			}
			if err != nil {
				return
			}
			data := append([]byte(nil), w.Bytes()...)
			r := messages.NewReader(data)
			q = reflect.New(p.Elem().Type())
			err = r.Read(q.Interface())
			pos, ln = r.Pos(), len(data)
		}()
		kind := p.Elem().Type().String()
		viol := func(vk, f string, a ...any) {
			if !seen[vk+kind] {
				seen[vk+kind] = true
				R.Violate(5000000+k, vk, kind, fmt.Sprintf(f, a...)+" | value: "+verifrt.Short(nx, 1200), map[string]any{"type": kind, "value": nx})
			}
		}
		if err != nil {
			viol("c12-primitive-error", "Write/Read of a supported shape failed: %v", err)
			continue
		}
		if pos != ln {
			viol("c12-reader-position", "reader consumed %d of %d bytes", pos, ln)
		}
		if ny := vfNorm(q.Elem(), 0); ny != nx {
			viol("c12-value-changed", "Read(Write(x)) != x: got %s", verifrt.Short(ny, 1200))
		}
		R.Nontrivial("prim|" + kind + "|" + nx)
	}
	R.Obs("primitive_values", int64(n))
}
