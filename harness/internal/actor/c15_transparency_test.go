//go:build verif

package actor

import (
	"errors"
	"fmt"
	"os"
	"reflect"
	"sort"
	"strings"
	"sync"
	"testing"
	"time"

	"github.com/kercylan98/vivid"
	"github.com/kercylan98/vivid/internal/messages"
	"github.com/kercylan98/vivid/internal/verifrt"
)

// C15 — location transparency (DESIGN §4 C15): a differential monitor. Every scenario is executed twice on a pair of real
// systems A and B (loopback): once with the target actor on the driver's own system (local) and once with the target on the
// other system (remote). Every participating actor logs what it observes (messages with their normalised content and
// sender, lifecycle messages, PipeResults, outcomes of Ask/Ping) and the two logs must be equal role by role.

type vfTMsg struct {
	Kind string
	N    int64
}

func init() {
	vivid.RegisterCustomMessage[*vfTMsg]("vfTMsg",
		func(message any, r *messages.Reader, _ messages.Codec) error {
			m := message.(*vfTMsg)
			return r.ReadInto(&m.Kind, &m.N)
		},
		func(message any, w *messages.Writer, _ messages.Codec) error {
			m := message.(*vfTMsg)
			return w.WriteFrom(m.Kind, m.N)
		})
}

// vfTTick is a registered message without any field: its wire body is empty (a tick / ack as applications define them).
type vfTTick struct{}

func init() {
	vivid.RegisterCustomMessage[*vfTTick]("vfTTick",
		func(message any, r *messages.Reader, _ messages.Codec) error { return nil },
		func(message any, w *messages.Writer, _ messages.Codec) error { return nil })
}

// local-only command (never on the wire)
type vfTCmd struct {
	Op      string // tell ask kill watch unwatch ping pipe futpipe once loop cancel
	Target  vivid.ActorRef
	Fwd     vivid.ActorRefs
	Msg     vivid.Message
	Poison  bool
	Reason  string
	Timeout time.Duration
}

type vfTWorld struct {
	mu    sync.Mutex
	logs  map[string][]string // role -> observations
	hosts map[string]string   // path -> address of the system that hosts it
	roles map[string]string   // path -> role
	n     int
	owed  int // outcomes still outstanding (Ask / Ping results, PipeResults at forwarders)
}

func (w *vfTWorld) expect(n int) { w.mu.Lock(); w.owed += n; w.mu.Unlock() }
func (w *vfTWorld) owes() int     { w.mu.Lock(); defer w.mu.Unlock(); return w.owed }

func (w *vfTWorld) log(role, f string, a ...any) {
	w.mu.Lock()
	w.logs[role] = append(w.logs[role], fmt.Sprintf(f, a...))
	if strings.HasPrefix(f, "ask(") || strings.HasPrefix(f, "ping ->") || strings.HasPrefix(f, "%s id=%s") {
		w.owed--
	}
	w.n++
	w.mu.Unlock()
}

func (w *vfTWorld) count() int { w.mu.Lock(); defer w.mu.Unlock(); return w.n }

// a ref is rendered as the role of the actor it designates; the address must be the one of the system hosting that actor
func (w *vfTWorld) ref(r vivid.ActorRef) string {
	if r == nil || (reflect.ValueOf(r).Kind() == reflect.Ptr && reflect.ValueOf(r).IsNil()) {
		return "<nil>"
	}
	w.mu.Lock()
	defer w.mu.Unlock()
	role, ok := w.roles[r.GetAddress()+"|"+r.GetPath()]
	if !ok {
		// a known path under a foreign address
		for k, v := range w.roles {
			if strings.HasSuffix(k, "|"+r.GetPath()) && !strings.HasPrefix(k, "pipe:") {
				return v + "@WRONG-ADDRESS"
			}
		}
	}
	if !ok {
		if strings.Contains(r.GetPath(), "future") || strings.Contains(r.GetPath(), "@") {
			return "<future>"
		}
		if r.GetPath() == "/" {
			return "<root>"
		}
		return "<other " + r.GetPath() + ">"
	}
	return role
}

func vfTErr(err error) string {
	if err == nil {
		return "nil"
	}
	// a plain Go error cannot keep its identity on the wire (it arrives as vivid.ErrorException carrying its text): both
	// forms are rendered as the same failure class, identified by the text the replying actor put into it
	var ve *vivid.Error
	if errors.As(err, &ve) && ve.GetCode() != vivid.ErrorException.GetCode() {
		return fmt.Sprintf("vivid.Error(%d %q)", ve.GetCode(), ve.GetMessage())
	}
	return fmt.Sprintf("failure(mentions-boom-7=%v)", strings.Contains(err.Error(), "boom-7"))
}

func (w *vfTWorld) msg(m vivid.Message) string {
	switch v := m.(type) {
	case nil:
		return "<nil>"
	case *vfTMsg:
		return fmt.Sprintf("vfTMsg{%s %d}", v.Kind, v.N)
	case *vfUserMsg:
		return fmt.Sprintf("vfUserMsg{%q %d %x}", v.A, v.B, v.C)
	case *vfCustomMsg:
		return fmt.Sprintf("vfCustomMsg{%d %q %v}", v.ID, v.Name, v.Tags)
	case *vfTTick:
		return "vfTTick{}"
	case *vivid.PipeResult:
		return fmt.Sprintf("PipeResult{msg=%s err=%s}", w.msg(v.Message), vfTErr(v.Error))
	case error:
		return "error:" + vfTErr(v)
	}
	return fmt.Sprintf("%T", m)
}

type vfTActor struct {
	w    *vfTWorld
	role string
	ids  map[string]string // pipe id -> label (driver)
}

func (a *vfTActor) OnReceive(ctx vivid.ActorContext) {
	w := a.w
	switch m := ctx.Message().(type) {
	case *vivid.OnLaunch:
	case *vivid.OnKill:
		w.log(a.role, "OnKill{killer=%s poison=%v reason=%q}", w.ref(m.Killer), m.Poison, m.Reason)
	case *vivid.OnKilled:
		w.log(a.role, "OnKilled{ref=%s} sender=%s", w.ref(m.Ref), w.ref(ctx.Sender()))
	case *vivid.PipeResult:
		w.mu.Lock()
		lbl, known := a.w.roles["pipe:"+m.Id]
		w.mu.Unlock()
		if !known {
			lbl = "UNKNOWN-PIPE-ID"
		}
		w.log(a.role, "%s id=%s", w.msg(m), lbl)
	case *vfTCmd:
		a.exec(ctx, m)
	case *vfTMsg:
		w.log(a.role, "recv %s sender=%s", w.msg(m), w.ref(ctx.Sender()))
		switch m.Kind {
		case "ask-reply":
			ctx.Reply(&vfTMsg{Kind: "re", N: m.N + 1})
		case "ask-reply-user":
			ctx.Reply(&vfUserMsg{A: "re", B: m.N + 1, C: []byte{0, 255, 10}})
		case "ask-reply-custom":
			ctx.Reply(&vfCustomMsg{ID: uint64(m.N + 1), Name: "re", Tags: []string{"a", ""}})
		case "ask-reply-tick":
			ctx.Reply(&vfTTick{})
		case "ask-reply-err":
			ctx.Reply(vivid.ErrorIllegalArgument.WithMessage("bad argument"))
		case "ask-reply-plainerr":
			ctx.Reply(errors.New("boom-7"))
		case "ask-reply-exception":
			ctx.Reply(vivid.ErrorException.With(errors.New("boom-7")))
		case "ask-reply-twice":
			ctx.Reply(&vfTMsg{Kind: "re", N: 1})
			ctx.Reply(&vfTMsg{Kind: "re", N: 2})
		case "tellback":
			ctx.Tell(ctx.Sender(), &vfTMsg{Kind: "back", N: m.N + 1})
		case "ask-noreply":
		}
	case *vfTTick:
		w.log(a.role, "recv tick sender=%s", w.ref(ctx.Sender()))
	case *vfUserMsg:
		w.log(a.role, "recv %s sender=%s", w.msg(m), w.ref(ctx.Sender()))
		if m.A == "ask" {
			ctx.Reply(&vfUserMsg{A: "re", B: m.B + 1, C: m.C})
		}
	case *vfCustomMsg:
		w.log(a.role, "recv %s sender=%s", w.msg(m), w.ref(ctx.Sender()))
		if m.Name == "ask" {
			ctx.Reply(&vfCustomMsg{ID: m.ID + 1, Name: "re"})
		}
	default:
		w.log(a.role, "recv %T sender=%s", m, w.ref(ctx.Sender()))
	}
}

func (a *vfTActor) exec(ctx vivid.ActorContext, c *vfTCmd) {
	w := a.w
	switch c.Op {
	case "tell":
		ctx.Tell(c.Target, c.Msg)
	case "ask":
		// do not block the handler: the reply (or the watcher's OnKilled ...) may need this mailbox
		f := ctx.Ask(c.Target, c.Msg, c.Timeout)
		go func() {
			m, err := f.Result()
			w.log(a.role, "ask(%s) -> %s err=%s", w.msg(c.Msg), w.msg(m), vfTErr(err))
		}()
	case "kill":
		ctx.Kill(c.Target, c.Poison, c.Reason)
	case "watch":
		ctx.Watch(c.Target)
	case "unwatch":
		ctx.Unwatch(c.Target)
	case "ping":
		go func() {
			p, err := ctx.Ping(c.Target, c.Timeout)
			ok := p != nil && !p.PingTime.IsZero() && !p.RespondTime.IsZero() && !p.RespondTime.Before(p.PingTime.Add(-time.Second))
			w.log(a.role, "ping -> pong=%v sane=%v err=%s", p != nil, ok, vfTErr(err))
		}()
	case "pipe":
		id := ctx.PipeTo(c.Target, c.Msg, c.Fwd, c.Timeout)
		w.mu.Lock()
		w.roles["pipe:"+id] = "the-id-PipeTo-returned"
		w.mu.Unlock()
	case "futpipe":
		f := ctx.Ask(c.Target, c.Msg, c.Timeout)
		err := f.PipeTo(c.Fwd)
		w.log(a.role, "Future.PipeTo -> %s", vfTErr(err))
	case "once":
		err := ctx.Scheduler().Once(c.Target, 20*time.Millisecond, c.Msg, vivid.WithSchedulerReference("vf-once"))
		w.log(a.role, "Once -> %s", vfTErr(err))
	case "loop":
		err := ctx.Scheduler().Loop(c.Target, 40*time.Millisecond, c.Msg, vivid.WithSchedulerReference("vf-loop"))
		w.log(a.role, "Loop -> %s", vfTErr(err))
	case "cancel":
		_ = ctx.Scheduler().Cancel("vf-loop")
	}
}

type vfTStep struct {
	Who string // role executing the command: drv, drv2 ("sys:" prefix: through the ActorSystem's own methods)
	Cmd vfTCmd
	// symbolic refs resolved per variant
	Target string
	Fwd    []string
}

type vfTScenario struct {
	Name      string
	NeedCodec bool
	Steps     []vfTStep
	LoopTicks bool // log of tgt is compared as a set of distinct lines (tick counts are timing dependent)
	// Poison: before the steps both systems try to send messages whose custom writer fails inside the Writer (to an actor
	// on the other system, in the local and in the remote variant alike; they are never delivered). Whatever such a
	// failure leaves behind must not change what the operations under test do afterwards.
	Poison bool
	Equal     [][2]string // pairs of roles on different systems that do the same thing: their logs must be equal within one run
}

func vfTScenarios() []vfTScenario {
	tm := func(kind string, n int64) vivid.Message { return &vfTMsg{Kind: kind, N: n} }
	step := func(who, op, target string, msg vivid.Message) vfTStep {
		return vfTStep{Who: who, Target: target, Cmd: vfTCmd{Op: op, Msg: msg, Timeout: 700 * time.Millisecond}}
	}
	kill := func(who, target string, poison bool, reason string) vfTStep {
		return vfTStep{Who: who, Target: target, Cmd: vfTCmd{Op: "kill", Poison: poison, Reason: reason}}
	}
	pipe := func(who, op, target string, msg vivid.Message, fwd ...string) vfTStep {
		return vfTStep{Who: who, Target: target, Fwd: fwd, Cmd: vfTCmd{Op: op, Msg: msg, Timeout: 700 * time.Millisecond}}
	}
	var sc []vfTScenario
	for _, who := range []string{"drv", "sys:drv"} {
		p := who + " "
		sc = append(sc,
			vfTScenario{Name: p + "tell", Steps: []vfTStep{step(who, "tell", "tgt", tm("tell", 1)), step(who, "tell", "tgt", tm("tell", 2))}},
			vfTScenario{Name: p + "tell, target tells back to the sender", Steps: []vfTStep{step(who, "tell", "tgt", tm("tellback", 7))}},
			vfTScenario{Name: p + "ask/reply", Steps: []vfTStep{step(who, "ask", "tgt", tm("ask-reply", 1))}},
			vfTScenario{Name: p + "ask, no reply (timeout)", Steps: []vfTStep{step(who, "ask", "tgt", tm("ask-noreply", 1))}},
			vfTScenario{Name: p + "ask, replied twice", Steps: []vfTStep{step(who, "ask", "tgt", tm("ask-reply-twice", 1))}},
			vfTScenario{Name: p + "ask, reply is an error", Steps: []vfTStep{step(who, "ask", "tgt", tm("ask-reply-err", 1))}},
			vfTScenario{Name: p + "ask, reply is a custom registered message", Steps: []vfTStep{step(who, "ask", "tgt", tm("ask-reply-custom", 1))}},
			vfTScenario{Name: p + "ask with a custom registered message", Steps: []vfTStep{step(who, "ask", "tgt", &vfCustomMsg{ID: 5, Name: "ask", Tags: []string{"x"}})}},
			vfTScenario{Name: p + "tell/ask with user-codec messages", NeedCodec: true, Steps: []vfTStep{step(who, "tell", "tgt", &vfUserMsg{A: "tell", B: 1, C: []byte{1, 2}}), step(who, "ask", "tgt", &vfUserMsg{A: "ask", B: 2, C: []byte{0xff, 0}}), step(who, "ask", "tgt", tm("ask-reply-user", 3))}},
			vfTScenario{Name: p + "kill (system message)", Steps: []vfTStep{kill(who, "tgt", false, "because"), step(who, "ping", "tgt", nil)}},
			vfTScenario{Name: p + "kill (poison)", Steps: []vfTStep{step(who, "tell", "tgt", tm("tell", 1)), kill(who, "tgt", true, ""), step(who, "ping", "tgt", nil)}},
			vfTScenario{Name: p + "ping", Steps: []vfTStep{step(who, "ping", "tgt", nil)}},
			vfTScenario{Name: p + "pipe success to local+remote forwarders", Steps: []vfTStep{pipe(who, "pipe", "tgt", tm("ask-reply", 4), "fwA", "fwB")}},
			vfTScenario{Name: p + "pipe timeout to local+remote forwarders", Steps: []vfTStep{pipe(who, "pipe", "tgt", tm("ask-noreply", 4), "fwA", "fwB")}},
			vfTScenario{Name: p + "pipe error reply to local+remote forwarders", Steps: []vfTStep{pipe(who, "pipe", "tgt", tm("ask-reply-err", 4), "fwA", "fwB")}},
			vfTScenario{Name: p + "ask, reply is a plain Go error", Steps: []vfTStep{step(who, "ask", "tgt", tm("ask-reply-plainerr", 1))}},
			vfTScenario{Name: p + "pipe plain Go error reply to local+remote forwarders", Steps: []vfTStep{pipe(who, "pipe", "tgt", tm("ask-reply-plainerr", 4), "fwA", "fwB")}},
			vfTScenario{Name: p + "pipe ErrorException reply to local+remote forwarders", Steps: []vfTStep{pipe(who, "pipe", "tgt", tm("ask-reply-exception", 4), "fwA", "fwB")}},
			vfTScenario{Name: p + "tell / ask / pipe with a field-less registered message (empty wire body)", Steps: []vfTStep{step(who, "tell", "tgt", &vfTTick{}), step(who, "ask", "tgt", &vfTTick{}), pipe(who, "pipe", "tgt", tm("ask-reply-tick", 4), "fwA", "fwB")}},
			vfTScenario{Name: p + "pipe custom reply", Steps: []vfTStep{pipe(who, "pipe", "tgt", tm("ask-reply-custom", 4), "fwA", "fwB")}},
			vfTScenario{Name: p + "pipe user-codec reply", NeedCodec: true, Steps: []vfTStep{pipe(who, "pipe", "tgt", tm("ask-reply-user", 4), "fwA", "fwB")}},
		)
	}
	// the same operations after encodes that failed inside the Writer
	ps := "after messages whose writer failed: "
	sc = append(sc,
		vfTScenario{Name: ps + "ping, ask/reply, tell-back", Poison: true, Steps: []vfTStep{step("drv", "ping", "tgt", nil), step("drv", "ask", "tgt", tm("ask-reply", 1)), step("drv", "tell", "tgt", tm("tellback", 7))}},
		vfTScenario{Name: ps + "kill (system message)", Poison: true, Steps: []vfTStep{kill("drv", "tgt", false, "because"), step("drv", "ping", "tgt", nil)}},
		vfTScenario{Name: ps + "watch, then kill by a third actor", Poison: true, Steps: []vfTStep{step("drv", "watch", "tgt", nil), kill("drv2", "tgt", true, "x")}},
		vfTScenario{Name: ps + "pipe success and error reply to local+remote forwarders", Poison: true, Steps: []vfTStep{pipe("drv", "pipe", "tgt", tm("ask-reply", 4), "fwA", "fwB"), pipe("drv", "pipe", "tgt", tm("ask-reply-err", 5), "fwA", "fwB")}},
		vfTScenario{Name: ps + "system-level ask and kill", Poison: true, Steps: []vfTStep{step("sys:drv", "ask", "tgt", tm("ask-reply", 1)), kill("sys:drv", "tgt", false, "r")}},
	)
	// operations only an ActorContext has
	sc = append(sc,
		vfTScenario{Name: "watch, then the target is killed by a third actor", Steps: []vfTStep{step("drv", "watch", "tgt", nil), kill("drv2", "tgt", false, "x")}},
		vfTScenario{Name: "watch, then the target is poison-killed", Steps: []vfTStep{step("drv", "watch", "tgt", nil), kill("drv2", "tgt", true, "x")}},
		vfTScenario{Name: "watch twice, one OnKilled", Steps: []vfTStep{step("drv", "watch", "tgt", nil), step("drv", "watch", "tgt", nil), kill("drv", "tgt", false, "")}},
		vfTScenario{Name: "two watchers on different systems", Equal: [][2]string{{"drv", "fwB"}}, Steps: []vfTStep{step("drv", "watch", "tgt", nil), step("fwB", "watch", "tgt", nil), kill("drv2", "tgt", false, "")}},
		vfTScenario{Name: "twin watchers: the same path on both systems", Equal: [][2]string{{"twA", "twB"}}, Steps: []vfTStep{step("twA", "watch", "tgt", nil), step("twB", "watch", "tgt", nil), kill("drv2", "tgt", false, "")}},
		vfTScenario{Name: "twin watchers, remote-first", Equal: [][2]string{{"twA", "twB"}}, Steps: []vfTStep{step("twB", "watch", "tgt", nil), step("twA", "watch", "tgt", nil), kill("drv2", "tgt", true, "")}},
		vfTScenario{Name: "twin watchers, one unwatches", Steps: []vfTStep{step("twA", "watch", "tgt", nil), step("twB", "watch", "tgt", nil), step("twB", "unwatch", "tgt", nil), kill("drv2", "tgt", false, "")}},
		vfTScenario{Name: "twin watchers, the other unwatches", Steps: []vfTStep{step("twA", "watch", "tgt", nil), step("twB", "watch", "tgt", nil), step("twA", "unwatch", "tgt", nil), kill("drv2", "tgt", false, "")}},
		vfTScenario{Name: "watch, unwatch, kill: no notice", Steps: []vfTStep{step("drv", "watch", "tgt", nil), step("drv", "unwatch", "tgt", nil), kill("drv2", "tgt", false, "")}},
		vfTScenario{Name: "Future.PipeTo success", Steps: []vfTStep{pipe("drv", "futpipe", "tgt", tm("ask-reply", 9), "fwA", "fwB")}},
		vfTScenario{Name: "Future.PipeTo timeout", Steps: []vfTStep{pipe("drv", "futpipe", "tgt", tm("ask-noreply", 9), "fwA", "fwB")}},
		vfTScenario{Name: "scheduler Once", Steps: []vfTStep{step("drv", "once", "tgt", tm("tell", 11))}},
		vfTScenario{Name: "scheduler Once, zero-body lifecycle message as payload", Steps: []vfTStep{step("drv", "once", "tgt", &messages.NoneArgsCommandMessage{})}},
		vfTScenario{Name: "scheduler Once, field-less registered message as payload", Steps: []vfTStep{step("drv", "once", "tgt", &vfTTick{})}},
		vfTScenario{Name: "Future.PipeTo, the reply is a field-less registered message", Steps: []vfTStep{pipe("drv", "futpipe", "tgt", tm("ask-reply-tick", 9), "fwA", "fwB")}},
		vfTScenario{Name: "scheduler Loop then Cancel", LoopTicks: true, Steps: []vfTStep{step("drv", "loop", "tgt", tm("tell", 12)), {Who: "drv", Cmd: vfTCmd{Op: "cancel"}}}},
	)
	return sc
}

// both forwarders are addressed by the same operation in the pipe scenarios only
func (sc vfTScenario) fwdEqual() bool {
	for _, st := range sc.Steps {
		if len(st.Fwd) > 0 {
			return true
		}
	}
	return false
}

type vfTPair struct {
	a, b *vfNode
	seq  int
}

func vfTNewPair(codec bool) (*vfTPair, error) {
	var opts []vivid.ActorSystemOption
	if codec {
		opts = append(opts, vivid.WithActorSystemCodec(vfJSONCodec{}))
	}
	addrA, addrB := vfFreeAddr(), vfFreeAddr()
	a, err := vfStartNode(addrA, addrA, opts...)
	if err != nil {
		return nil, err
	}
	b, err := vfStartNode(addrB, addrB, opts...)
	if err != nil {
		_ = a.stop()
		return nil, err
	}
	return &vfTPair{a: a, b: b}, nil
}

// run executes the scenario with the target on A (local=true: driver's own system) or on B.
func (p *vfTPair) run(sc vfTScenario, local bool) (map[string][]string, string) {
	p.seq++
	w := &vfTWorld{logs: map[string][]string{}, hosts: map[string]string{}, roles: map[string]string{}}
	refs := map[string]vivid.ActorRef{}
	spawn := func(role string, n *vfNode) error {
		name := fmt.Sprintf("%s-%d", role, p.seq)
		if role == "twA" || role == "twB" {
			name = fmt.Sprintf("twin-%d", p.seq) // the same path on both systems
		}
		w.mu.Lock()
		w.hosts[role] = n.adv
		w.roles[n.adv+"|/"+name] = role
		w.mu.Unlock()
		if _, err := n.sys.ActorOf(&vfTActor{w: w, role: role}, vivid.WithActorName(name)); err != nil {
			return err
		}
		// everybody addresses everybody else through a ref created on the driver's system A
		r, err := p.a.sys.CreateRef(n.adv, "/"+name)
		refs[role] = r
		return err
	}
	tgtNode := p.b
	if local {
		tgtNode = p.a
	}
	for _, s := range []struct {
		role string
		n    *vfNode
	}{{"drv", p.a}, {"drv2", p.a}, {"tgt", tgtNode}, {"fwA", p.a}, {"fwB", p.b}, {"twA", p.a}, {"twB", p.b}} {
		if err := spawn(s.role, s.n); err != nil {
			return nil, "spawn " + s.role + ": " + err.Error()
		}
	}
	settle := func(max time.Duration) {
		last, since := w.count(), time.Now()
		end := time.Now().Add(max)
		for time.Now().Before(end) {
			time.Sleep(10 * time.Millisecond)
			if n := w.count(); n != last {
				last, since = n, time.Now()
			} else if time.Since(since) > 250*time.Millisecond && w.owes() <= 0 {
				return
			}
		}
	}
	if sc.Poison {
		toB := refs["fwB"]
		toA, _ := p.b.sys.CreateRef(p.a.adv, refs["fwA"].GetPath())
		var pw sync.WaitGroup
		for g := 0; g < 8; g++ {
			pw.Add(1)
			go func(g int) {
				defer pw.Done()
				for i := 0; i < 6; i++ {
					p.a.sys.Tell(toB, &vfPoisonMsg{N: g*10 + i})
					p.b.sys.Tell(toA, &vfPoisonMsg{N: g*10 + i})
				}
			}(g)
		}
		pw.Wait()
		time.Sleep(150 * time.Millisecond)
	}
	for _, st := range sc.Steps {
		cmd := st.Cmd
		if st.Target != "" {
			cmd.Target = refs[st.Target]
		}
		for _, f := range st.Fwd {
			cmd.Fwd = append(cmd.Fwd, refs[f])
		}
		switch cmd.Op {
		case "ask", "ping":
			w.expect(1)
		case "pipe", "futpipe":
			w.expect(len(cmd.Fwd))
		}
		who := st.Who
		if strings.HasPrefix(who, "sys:") {
			// through the ActorSystem's own methods (the root context): outcomes are logged under the driver's role
			sys := p.a.sys
			c := cmd
			switch c.Op {
			case "tell":
				sys.Tell(c.Target, c.Msg)
			case "ask":
				f := sys.Ask(c.Target, c.Msg, c.Timeout)
				go func() {
					m, err := f.Result()
					w.log("drv", "ask(%s) -> %s err=%s", w.msg(c.Msg), w.msg(m), vfTErr(err))
				}()
			case "kill":
				sys.Kill(c.Target, c.Poison, c.Reason)
			case "ping":
				go func() {
					pg, err := sys.Ping(c.Target, c.Timeout)
					ok := pg != nil && !pg.PingTime.IsZero() && !pg.RespondTime.IsZero()
					w.log("drv", "ping -> pong=%v sane=%v err=%s", pg != nil, ok, vfTErr(err))
				}()
			case "pipe":
				id := sys.PipeTo(c.Target, c.Msg, c.Fwd, c.Timeout)
				w.mu.Lock()
				w.roles["pipe:"+id] = "the-id-PipeTo-returned"
				w.mu.Unlock()
			}
		} else {
			host := p.a
			if who == "fwB" || who == "twB" {
				host = p.b
				// a ref usable on B
				if cmd.Target != nil {
					cmd.Target, _ = p.b.sys.CreateRef(cmd.Target.GetAddress(), cmd.Target.GetPath())
				}
			}
			lr, _ := host.sys.CreateRef(host.adv, refs[who].GetPath())
			host.sys.Tell(lr, &cmd)
		}
		max := 2500 * time.Millisecond
		if cmd.Op == "loop" {
			time.Sleep(200 * time.Millisecond)
		}
		settle(max)
	}
	settle(2500 * time.Millisecond)
	// final state of the target as seen from its own host
	tl, _ := tgtNode.sys.CreateRef(tgtNode.adv, refs["tgt"].GetPath())
	_, err := tgtNode.sys.Ping(tl, 300*time.Millisecond)
	w.log("tgt", "finally alive=%v", err == nil)
	// cleanup
	for role, r := range refs {
		n := p.a
		if w.hosts[role] == p.b.adv {
			n = p.b
		}
		lr, _ := n.sys.CreateRef(n.adv, r.GetPath())
		n.sys.Kill(lr, false, "cleanup")
	}
	w.mu.Lock()
	defer w.mu.Unlock()
	out := map[string][]string{}
	for role, l := range w.logs {
		l = append([]string(nil), l...)
		// cleanup kills arrive after the final-state line of tgt only; drop everything logged by cleanup
		var keep []string
		for _, x := range l {
			if strings.Contains(x, `reason="cleanup"`) {
				break
			}
			keep = append(keep, x)
		}
		if sc.LoopTicks {
			set := map[string]bool{}
			var u []string
			for _, x := range keep {
				if !set[x] {
					set[x] = true
					u = append(u, x)
				}
			}
			keep = u
		}
		out[role] = keep
	}
	return out, ""
}

func vfTRender(l map[string][]string) string {
	var roles []string
	for r := range l {
		roles = append(roles, r)
	}
	sort.Strings(roles)
	var sb strings.Builder
	for _, r := range roles {
		fmt.Fprintf(&sb, "[%s] %s\n", r, strings.Join(l[r], " ; "))
	}
	return sb.String()
}

func TestVerif_transparency(t *testing.T) {
	R := verifrt.NewReport("transparency", "differential monitor on two real systems (loopback TCP): each of the scenarios (Tell / tell-back / Ask with reply, no reply, double reply, error reply, custom and user-codec payloads / Kill system+poison / Ping / PipeTo and Future.PipeTo success, timeout, error to a local and a remote forwarder / Watch, double Watch, two watchers on different systems, Unwatch / scheduler Once, Loop+Cancel), through ActorContext and through the ActorSystem's own methods, without and with a user Codec, is executed once with the target on the driver's system and once with the target on the other system; every participant logs what it observes (message contents, senders with the address checked against the hosting system, OnKill/OnKilled fields, PipeResult message/error/id, Ask and Ping outcomes, final liveness) and the two logs must be equal role by role; local and remote forwarders of one run must also have equal logs. non-trivial+distinct = scenario variants in which the remote run put at least one frame on the wire and both runs logged something")
	defer R.Flush()
	scs := vfTScenarios()
	idx := 0
	for _, codec := range []bool{false, true} {
		var pair *vfTPair
		for _, sc := range scs {
			ci := idx
			idx++
			if sc.NeedCodec && !codec {
				continue
			}
			if !verifrt.Mine(ci) || (verifrt.EnvInt("VERIF_CASE", -1) >= 0 && verifrt.EnvInt("VERIF_CASE", -1) != ci) {
				continue
			}
			if pair == nil {
				var err error
				if pair, err = vfTNewPair(codec); err != nil {
					R.Inconcl("cannot start systems: " + err.Error())
					return
				}
			}
			name := fmt.Sprintf("%s | user codec=%v", sc.Name, codec)
			R.Journal(ci, name)
			var lo, re map[string][]string
			var diff string
			for attempt := 0; attempt < 2; attempt++ { // a difference must reproduce (scheduling noise on a loaded machine)
				var e1, e2 string
				lo, e1 = pair.run(sc, true)
				re, e2 = pair.run(sc, false)
				if e1+e2 != "" {
					diff = "harness: " + e1 + e2
					continue
				}
				diff = ""
				for _, role := range []string{"drv", "drv2", "tgt", "fwA", "fwB", "twA", "twB"} {
					if strings.Join(lo[role], "\n") != strings.Join(re[role], "\n") {
						diff += fmt.Sprintf("role %s observes\n    with a local target:  %s\n    with a remote target: %s\n", role, strings.Join(lo[role], " ; "), strings.Join(re[role], " ; "))
					}
				}
				for _, l := range []map[string][]string{lo, re} {
					if !sc.fwdEqual() {
						break
					}
					if strings.Join(l["fwA"], "\n") != strings.Join(l["fwB"], "\n") {
						diff += fmt.Sprintf("the local forwarder observes %s but the remote forwarder observes %s\n", strings.Join(l["fwA"], " ; "), strings.Join(l["fwB"], " ; "))
					}
				}
				for _, l := range []map[string][]string{lo, re} {
					for _, pr := range sc.Equal {
						if strings.Join(l[pr[0]], "\n") != strings.Join(l[pr[1]], "\n") {
							diff += fmt.Sprintf("%s and %s do the same thing from different systems but %s observes %s and %s observes %s\n", pr[0], pr[1], pr[0], strings.Join(l[pr[0]], " ; "), pr[1], strings.Join(l[pr[1]], " ; "))
						}
					}
				}
				if diff == "" {
					break
				}
			}
			R.Eval()
			if strings.HasPrefix(diff, "harness:") {
				R.Inconcl(name + ": " + diff)
				continue
			}
			if diff != "" {
				op := strings.Fields(strings.TrimPrefix(strings.TrimPrefix(sc.Name, "sys:drv "), "drv "))[0]
				R.Violate(ci, "c15-local-remote-differ", op, "scenario "+name+": "+diff, map[string]any{"scenario": name})
			}
			if len(lo["tgt"])+len(lo["drv"]) > 1 && len(re["tgt"]) > 0 {
				R.Nontrivial(name)
			}
			if f := os.Getenv("VERIF_DEBUG_FILE"); f != "" {
				if fh, err := os.OpenFile(f, os.O_APPEND|os.O_CREATE|os.O_WRONLY, 0o644); err == nil {
					fmt.Fprintf(fh, "== %s\nLOCAL\n%sREMOTE\n%s", name, vfTRender(lo), vfTRender(re))
					_ = fh.Close()
				}
			}
			R.Obs("observations_compared", int64(len(vfTRender(lo))))
			if ci%6 == 0 || verifrt.EnvInt("VERIF_DEBUG", 0) > 0 {
				R.Sample(map[string]any{"scenario": name, "local": verifrt.Short(vfTRender(lo), 500), "remote": verifrt.Short(vfTRender(re), 500)})
			}
		}
		if pair != nil {
			_ = pair.a.stop()
			_ = pair.b.stop()
		}
	}
}
