//go:build verif

package actor

import (
	"context"
	"errors"
	"fmt"
	"net"
	"sort"
	"strings"
	"sync"
	"testing"
	"time"

	"github.com/kercylan98/vivid"
	"github.com/kercylan98/vivid/internal/verifrt"
	"github.com/kercylan98/vivid/pkg/log"
)

// C07 with remoting (DESIGN §9.3): the virtual-time units cannot contain sockets, so the "with remoting" half of the
// property's quantifier is decided here in real time, on logical observations: return values of Start/Stop, the registry,
// and a goroutine monitor (no goroutine with a frame of the library or of its scheduler may remain once every system of
// the case has stopped; polled for up to 30 s because an outbound retry may still be sleeping in its backoff).

type vfSNCase struct {
	Name string
	Run  func(o *vfFaultOut)
}

func vfLibGoroutines() []string {
	var out []string
	for _, g := range vfGoroutinesIn("github.com/kercylan98/vivid/", "github.com/reugn/go-quartz") {
		// goroutines of the harness itself (the test function, helpers in zz_verif files) are not the system's
		lib := false
		for _, ln := range strings.Split(g, "\n") {
			if (strings.Contains(ln, "github.com/kercylan98/vivid/") || strings.Contains(ln, "go-quartz")) && !strings.Contains(ln, "zz_verif") && !strings.Contains(ln, "/verifrt") && strings.HasPrefix(ln, "\t") {
				lib = true
			}
		}
		onlyHarness := strings.Contains(g, "TestVerif_") && !strings.Contains(g, "created by github.com/kercylan98/vivid/internal")
		if lib && !onlyHarness {
			out = append(out, g)
		}
	}
	return out
}

// vfNoLeak polls until no library goroutine is left; returns the survivors (deduplicated by their innermost library frame).
func vfNoLeak(max time.Duration) (left []string) {
	end := time.Now().Add(max)
	for {
		gs := vfLibGoroutines()
		if len(gs) == 0 {
			return nil
		}
		if time.Now().After(end) {
			seen := map[string]bool{}
			for _, g := range gs {
				key := ""
				for _, ln := range strings.Split(g, "\n") {
					if strings.Contains(ln, "github.com/kercylan98/vivid/") && !strings.HasPrefix(ln, "\t") && !strings.Contains(ln, "zz_verif") {
						key = strings.TrimSpace(ln)
						if i := strings.Index(key, "("); i > 0 {
							key = key[:i]
						}
						break
					}
				}
				if !seen[key] {
					seen[key] = true
					left = append(left, verifrt.Short(g, 1500))
				}
			}
			sort.Strings(left)
			return left
		}
		time.Sleep(100 * time.Millisecond)
	}
}

func vfSNStop(sys *System, timeout time.Duration) (err error, returned bool) {
	done := make(chan error, 1)
	go func() { done <- sys.Stop(timeout) }()
	select {
	case err = <-done:
		return err, true
	case <-time.After(timeout + 30*time.Second):
		return nil, false
	}
}

func vfSNRegistered(sys *System) (n int, names []string) {
	sys.actorContexts.Range(func(k, v any) bool {
		if _, ok := v.(*Context); ok {
			n++
			if len(names) < 8 {
				names = append(names, fmt.Sprint(k))
			}
		}
		return true
	})
	return
}

func vfSNCheckStopped(o *vfFaultOut, sys *System, what string) {
	if n, names := vfSNRegistered(sys); n > 0 {
		o.add("c07-actors-alive-after-stop", "registry", "%s: after Stop returned nil %d actors are still registered: %v", what, n, names)
	}
	t0 := time.Now()
	if err := sys.Stop(); !errors.Is(err, vivid.ErrorActorSystemAlreadyStopped) {
		o.add("c07-not-a-state-machine", "Stop after Stop", "%s: a further Stop returned %v, want the already-stopped error", what, err)
	}
	if err := sys.Start(); !errors.Is(err, vivid.ErrorActorSystemAlreadyStopped) {
		o.add("c07-not-a-state-machine", "Start after Stop", "%s: Start after Stop returned %v, want the already-stopped error", what, err)
	}
	if d := time.Since(t0); d > 5*time.Second {
		o.add("c07-rejection-blocks", "Start/Stop after Stop", "%s: the rejected calls took %v", what, d)
	}
}

func vfSNCases() []vfSNCase {
	quiet := vivid.WithActorSystemLogger(log.NewSilentLogger())
	populate := func(sys *System, n int) {
		for i := 0; i < n; i++ {
			_, _ = sys.ActorOf(&vfSink{}, vivid.WithActorName(fmt.Sprintf("pop-%d", i)))
		}
	}
	return []vfSNCase{
		{"remoting, no peer: Start, populate, Stop", func(o *vfFaultOut) {
			addr := vfFreeAddr()
			sys := NewSystem(quiet, vivid.WithActorSystemRemoting(addr))
			if err := sys.Start(); err != nil {
				o.inc = err.Error()
				return
			}
			populate(sys, 10)
			err, ret := vfSNStop(sys, 20*time.Second)
			if !ret {
				o.add("c07-hang", "Stop", "Stop(20s) did not return within 50 s")
				return
			}
			if err != nil {
				o.add("c07-stop-error", "Stop", "Stop returned %v", err)
				return
			}
			vfSNCheckStopped(o, sys, "remoting, no peer")
			// the listener is released: the address can be bound again at once
			sys2 := NewSystem(quiet, vivid.WithActorSystemRemoting(addr))
			if err := sys2.Start(); err != nil {
				o.add("c07-listener-not-released", "bind", "a new system cannot start on the address of the stopped one: %v", err)
			} else if n, err := vfStartNodeProbe(addr); err != nil || n == 0 {
				o.add("c07-listener-not-released", "listen", "the new system on the same address does not accept connections: %v", err)
			}
			if err, ret := vfSNStop(sys2, 20*time.Second); !ret || err != nil {
				o.add("c07-stop-error", "Stop", "second system: returned=%v err=%v", ret, err)
			}
		}},
		{"two systems with traffic in both directions, Stop A then B", func(o *vfFaultOut) {
			a, b, err := vfSNPair()
			if err != nil {
				o.inc = err.Error()
				return
			}
			toB, toA := b.remoteSink(a), a.remoteSink(b)
			for q := 1; q <= 200; q++ {
				a.sys.Tell(toB, vfNewNetMsg(1, q, 64, false))
				b.sys.Tell(toA, vfNewNetMsg(2, q, 64, false))
			}
			vfWaitCount(b.sink, 200, time.Second)
			for _, n := range []*vfNode{a, b} {
				err, ret := vfSNStop(n.sys, 20*time.Second)
				if !ret {
					o.add("c07-hang", "Stop", "Stop(20s) of a connected system did not return within 50 s")
					return
				}
				if err != nil {
					o.add("c07-stop-error", "Stop", "Stop of a connected system returned %v", err)
					continue
				}
				vfSNCheckStopped(o, n.sys, "connected system")
			}
		}},
		{"Stop while deliveries to an unreachable peer are being retried", func(o *vfFaultOut) {
			addr := vfFreeAddr()
			sys := NewSystem(quiet, vivid.WithActorSystemRemoting(addr), vivid.WithActorSystemRemotingOption(vivid.WithActorSystemRemotingReconnectLimit(5)))
			if err := sys.Start(); err != nil {
				o.inc = err.Error()
				return
			}
			dead, _ := sys.CreateRef(vfFreeAddr(), "/sink")
			for q := 1; q <= 20; q++ {
				sys.Tell(dead, vfNewNetMsg(1, q, 8, false))
			}
			time.Sleep(150 * time.Millisecond) // inside the backoff of the first message
			err, ret := vfSNStop(sys, 20*time.Second)
			if !ret {
				o.add("c07-hang", "Stop", "Stop(20s) during outbound retries did not return within 50 s")
				return
			}
			if err != nil {
				o.add("c07-stop-error", "Stop", "Stop during outbound retries returned %v", err)
				return
			}
			vfSNCheckStopped(o, sys, "system with pending outbound retries")
		}},
		{"Stop with a timeout far below the remaining retry budget of two unreachable peers", func(o *vfFaultOut) {
			// default reconnect limit: the budget per unreachable peer is well above 10 s, and the peers are flushed one
			// after the other. Stop must not sit out those budgets: a Stop(6s) that succeeds shows (logically, whatever the
			// machine's speed) that shutdown gave the pending deliveries up instead of waiting for their retries.
			addr := vfFreeAddr()
			sys := NewSystem(quiet, vivid.WithActorSystemRemoting(addr))
			if err := sys.Start(); err != nil {
				o.inc = err.Error()
				return
			}
			for p := 0; p < 2; p++ {
				dead, _ := sys.CreateRef(vfFreeAddr(), "/sink")
				for q := 1; q <= 5; q++ {
					sys.Tell(dead, vfNewNetMsg(1+p, q, 8, false))
				}
			}
			time.Sleep(300 * time.Millisecond) // inside the backoff of the first messages
			t0 := time.Now()
			err, ret := vfSNStop(sys, 6*time.Second)
			if !ret {
				o.add("c07-hang", "Stop", "Stop(6s) during outbound retries did not return within 36 s")
				return
			}
			if err != nil {
				o.add("c07-stop-error", "Stop(short)", "Stop(6s) with deliveries to two unreachable peers pending returned %v after %v (the retry budget of the pending deliveries must not be waited for)", err, time.Since(t0).Round(time.Millisecond))
				return
			}
			vfSNCheckStopped(o, sys, "system with pending outbound retries (short Stop)")
		}},
		{"Start fails before the root exists (advertised address without a port), 10 systems", func(o *vfFaultOut) {
			// the option accepts the address, the root reference rejects it: Start fails at the first link of its chain and
			// stops the system itself. Whatever NewSystem started (the scheduler) has to be gone afterwards.
			for i := 0; i < 10; i++ {
				sys := NewSystem(quiet, vivid.WithActorSystemRemoting("127.0.0.1"))
				err := sys.Start()
				if err == nil {
					// this tree accepts the address after all: nothing to observe about a failed Start
					_, _ = vfSNStop(sys, 20*time.Second)
					o.inc = "Start with an advertised address without a port succeeded"
					return
				}
				if !errors.Is(err, vivid.ErrorActorSystemStartFailed) {
					o.add("c07-not-a-state-machine", "Start(failing)", "a failing Start returned %v, want the start-failed error", err)
				}
				t0 := time.Now()
				err2, ret := vfSNStop(sys, 5*time.Second)
				if !ret {
					o.add("c07-hang", "Stop after failed Start", "Stop after a failed Start did not return within 35 s")
					return
				}
				if err2 != nil && !errors.Is(err2, vivid.ErrorActorSystemAlreadyStopped) {
					o.add("c07-not-a-state-machine", "Stop after failed Start", "Stop after a failed Start returned %v, want nil or the already-stopped error", err2)
				}
				if err3 := sys.Start(); err3 == nil {
					o.add("c07-not-a-state-machine", "Start after failed Start", "a second Start after a failed Start returned nil")
				}
				if d := time.Since(t0); d > 5*time.Second {
					o.add("c07-rejection-blocks", "after failed Start", "the calls after a failed Start took %v", d)
				}
				if n, names := vfSNRegistered(sys); n > 0 {
					o.add("c07-actors-alive-after-stop", "registry", "after a failed Start %d actors are registered: %v", n, names)
				}
			}
		}},
		{"cancelling the context of a connected system has the effect of Stop", func(o *vfFaultOut) {
			addrA, addrB := vfFreeAddr(), vfFreeAddr()
			ctx, cancel := context.WithCancel(context.Background())
			defer cancel()
			sysA := NewSystem(quiet, vivid.WithActorSystemRemoting(addrA), vivid.WithActorSystemContext(ctx))
			if err := sysA.Start(); err != nil {
				o.inc = err.Error()
				return
			}
			b, err := vfStartNode(addrB, addrB)
			if err != nil {
				o.inc = err.Error()
				return
			}
			populate(sysA, 5)
			toB, _ := sysA.CreateRef(addrB, "/sink")
			for q := 1; q <= 50; q++ {
				sysA.Tell(toB, vfNewNetMsg(1, q, 64, false))
			}
			vfWaitCount(b.sink, 50, time.Second)
			cancel()
			// bounded progress: the registry empties and Stop reports already-stopped
			end := time.Now().Add(30 * time.Second)
			for time.Now().Before(end) {
				if n, _ := vfSNRegistered(sysA); n == 0 {
					break
				}
				time.Sleep(50 * time.Millisecond)
			}
			if n, names := vfSNRegistered(sysA); n > 0 {
				o.add("c07-cancel-does-not-stop", "context", "30 s after the system context was cancelled %d actors are still registered: %v", n, names)
			} else {
				vfSNCheckStopped(o, sysA, "cancelled system")
			}
			if err, ret := vfSNStop(b.sys, 20*time.Second); !ret || err != nil {
				o.add("c07-stop-error", "Stop", "peer: returned=%v err=%v", ret, err)
			}
		}},
		{"concurrent Stop x3 + cancel on a connected system", func(o *vfFaultOut) {
			addrA, addrB := vfFreeAddr(), vfFreeAddr()
			ctx, cancel := context.WithCancel(context.Background())
			defer cancel()
			sysA := NewSystem(quiet, vivid.WithActorSystemRemoting(addrA), vivid.WithActorSystemContext(ctx))
			if err := sysA.Start(); err != nil {
				o.inc = err.Error()
				return
			}
			b, err := vfStartNode(addrB, addrB)
			if err != nil {
				o.inc = err.Error()
				return
			}
			toB, _ := sysA.CreateRef(addrB, "/sink")
			sysA.Tell(toB, vfNewNetMsg(1, 1, 64, false))
			vfWaitCount(b.sink, 1, time.Second)
			var wg sync.WaitGroup
			errs := make([]error, 3)
			rets := make([]bool, 3)
			for i := 0; i < 3; i++ {
				wg.Add(1)
				go func(i int) { defer wg.Done(); errs[i], rets[i] = vfSNStop(sysA, 20*time.Second) }(i)
			}
			cancel()
			wg.Wait()
			okN := 0
			for i := range errs {
				switch {
				case !rets[i]:
					o.add("c07-hang", "Stop", "one of three concurrent Stops did not return within 50 s")
				case errs[i] == nil:
					okN++
				case !errors.Is(errs[i], vivid.ErrorActorSystemAlreadyStopped):
					o.add("c07-not-a-state-machine", "concurrent Stop", "a concurrent Stop returned %v", errs[i])
				}
			}
			if okN > 1 {
				o.add("c07-not-a-state-machine", "concurrent Stop", "%d concurrent Stops returned nil (Stop succeeds once)", okN)
			}
			end := time.Now().Add(30 * time.Second)
			for time.Now().Before(end) {
				if n, _ := vfSNRegistered(sysA); n == 0 {
					break
				}
				time.Sleep(50 * time.Millisecond)
			}
			if n, names := vfSNRegistered(sysA); n > 0 {
				o.add("c07-actors-alive-after-stop", "registry", "%d actors registered 30 s after Stop/cancel: %v", n, names)
			}
			if err, ret := vfSNStop(b.sys, 20*time.Second); !ret || err != nil {
				o.add("c07-stop-error", "Stop", "peer: returned=%v err=%v", ret, err)
			}
		}},
	}
}

func vfSNPair() (a, b *vfNode, err error) {
	addrA, addrB := vfFreeAddr(), vfFreeAddr()
	if a, err = vfStartNode(addrA, addrA); err != nil {
		return
	}
	b, err = vfStartNode(addrB, addrB)
	return
}

// vfStartNodeProbe: does the address accept a TCP connection?
func vfStartNodeProbe(addr string) (int, error) {
	deadline := time.Now().Add(5 * time.Second)
	var last error
	for time.Now().Before(deadline) {
		c, err := netDial(addr)
		if err == nil {
			_ = c.Close()
			return 1, nil
		}
		last = err
		time.Sleep(20 * time.Millisecond)
	}
	return 0, last
}

func TestVerif_startstopnet(t *testing.T) {
	R := verifrt.NewReport("startstopnet", "real time, systems with remoting on loopback: Start / populate / Stop without a peer (and the address can be bound again at once); two connected systems with traffic in both directions stopped one after the other; Stop while deliveries to an unreachable peer are being retried (Stop(20s) within a small retry budget, and Stop(6s) far below the default retry budget of two unreachable peers: shutdown must give pending deliveries up, not wait for their retries); Start failing before the root exists (advertised address without a port; an occupied bind address does not make Start fail on this tree): whatever the constructor created must be gone; cancelling the context of a connected system; three concurrent Stops plus a cancel. Oracle (logical observations only): Stop returns nil once and within its timeout, later Start/Stop return the already-stopped error promptly, nothing stays registered, and once all systems of the case have stopped no goroutine with a frame of the library or of its scheduler is left (polled for up to 30 s). non-trivial+distinct = cases that ran to their end with at least one system stopped")
	defer R.Flush()
	cases := vfSNCases()
	reps := 1
	if verifrt.Thorough() {
		reps = 10
	}
	only := verifrt.EnvInt("VERIF_CASE", -1)
	if base := vfLibGoroutines(); len(base) > 0 {
		R.Inconcl("library goroutines exist before the first case: " + verifrt.Short(base[0], 600))
		return
	}
	for r := 0; r < reps; r++ {
		for i, c := range cases {
			ci := r*len(cases) + i
			if !verifrt.Mine(ci) || (only >= 0 && only != ci) {
				continue
			}
			R.Journal(ci, c.Name)
			stall := vfStartStall()
			var o vfFaultOut
			c.Run(&o)
			left := vfNoLeak(30 * time.Second)
			maxStall := stall.end()
			R.Eval()
			if o.inc != "" {
				R.Inconcl(fmt.Sprintf("case %d (%s): %s", ci, c.Name, o.inc))
				continue
			}
			if len(left) > 0 {
				o.add("c07-goroutines-left-after-stop", "goroutines", "%d kind(s) of library goroutines are still there 30 s after every system of the case stopped:\n%s", len(left), strings.Join(left, "\n---\n"))
			}
			if maxStall > 2*time.Second && len(o.viols) > 0 {
				R.Inconcl(fmt.Sprintf("case %d (%s): scheduler stall %v: %s", ci, c.Name, maxStall, o.viols[0].Detail))
				continue
			}
			for _, v := range o.viols {
				R.Violate(ci, v.Kind, v.Key, v.Detail+" | case: "+c.Name, map[string]any{"case": c.Name})
			}
			R.Nontrivial(fmt.Sprintf("%s#%d", c.Name, r))
			R.Sample(map[string]any{"case": c.Name, "violations": len(o.viols), "max_stall": maxStall.String()})
		}
	}
}

func netDial(addr string) (interface{ Close() error }, error) {
	return net.DialTimeout("tcp", addr, 300*time.Millisecond)
}
