//go:build verif

package actor

import (
	"fmt"
	"reflect"
	"sort"
	"strings"
	"sync"
	"testing"
	"time"

	"github.com/anishathalye/porcupine"
	"github.com/kercylan98/vivid"
	"github.com/kercylan98/vivid/internal/verifrt"
	"github.com/kercylan98/vivid/pkg/log"
)

// C19 — event stream: porcupine (map type -> set of subscribers) + exactly-once / ordering ledger + table invariant.

type vfESOp struct {
	Kind  string // sub | unsub | unsuball | pub | kill | restart
	Actor int
	Typ   int
	EvID  int
	Pub   int
}

func (o vfESOp) String() string {
	switch o.Kind {
	case "pub":
		return fmt.Sprintf("p%d.pub(T%d#%d)", o.Pub, o.Typ, o.EvID)
	case "sub", "unsub":
		return fmt.Sprintf("%s(a%d,T%d)", o.Kind, o.Actor, o.Typ)
	}
	return fmt.Sprintf("%s(a%d)", o.Kind, o.Actor)
}

type vfESCtx struct{ ref vivid.ActorRef }

var vfSilent = log.NewSilentLogger()

func (c vfESCtx) Logger() log.Logger  { return vfSilent }
func (c vfESCtx) Ref() vivid.ActorRef { return c.ref }

func vfMkStreamEv(t int, e vfStreamEv) any {
	switch t {
	case 0:
		return vfStreamEv0{e}
	case 1:
		return vfStreamEv1{e}
	case 2:
		return vfStreamEv2{e}
	case 3:
		return vfStreamEv3{e}
	}
	return vfStreamEv4{e}
}

type vfESIn struct {
	Kind  string
	Actor int
}

var vfESModel = porcupine.Model{
	Init: func() any { return uint32(0) },
	Step: func(st, in, out any) (bool, any) {
		s := st.(uint32)
		i := in.(vfESIn)
		switch i.Kind {
		case "sub":
			return true, s | 1<<uint(i.Actor)
		case "unsub":
			return true, s &^ (1 << uint(i.Actor))
		}
		return out.(uint32) == s, s
	},
	DescribeOperation: func(in, out any) string {
		i := in.(vfESIn)
		if i.Kind == "pub" {
			return fmt.Sprintf("publish->recipients=%b", out.(uint32))
		}
		return fmt.Sprintf("%s(a%d)", i.Kind, i.Actor)
	},
}

func vfGenES(rng *verifrt.Rand) (nActors, nTypes int, groups [][]vfESOp) {
	nActors = 2 + rng.Intn(11)
	nTypes = 1 + rng.Intn(5)
	nPubs := 1 + rng.Intn(6)
	total := 8 + rng.Intn(52)
	ev := 0
	alive := make([]bool, nActors)
	for i := range alive {
		alive[i] = true
	}
	if rng.Intn(100) < 20 && nActors >= 3 {
		// stray unsubscribes: k actors subscribe to T0, then actors that are NOT subscribed to T0 unsubscribe from it, one
		// at a time, with a publication after each: a no-op Unsubscribe must not change who receives what, however many
		// of them there are
		k := 1 + rng.Intn(minInt(3, nActors-1))
		for i := 0; i < k; i++ {
			groups = append(groups, []vfESOp{{Kind: "sub", Actor: i, Typ: 0}})
		}
		for j := 0; j < k+5; j++ {
			stray := k + rng.Intn(nActors-k)
			groups = append(groups, []vfESOp{{Kind: "unsub", Actor: stray, Typ: 0}})
			ev++
			groups = append(groups, []vfESOp{{Kind: "pub", Typ: 0, EvID: ev, Pub: rng.Intn(nPubs)}})
		}
	}
	for n := 0; n < total; {
		gsz := 1 + rng.Intn(4)
		var g []vfESOp
		usedActor := map[int]bool{}
		usedPub := map[int]bool{}
		for k := 0; k < gsz; k++ {
			a := rng.Intn(nActors)
			r := rng.Intn(100)
			switch {
			case r < 40:
				p := rng.Intn(nPubs)
				if usedPub[p] {
					continue // one publisher publishes sequentially
				}
				usedPub[p] = true
				ev++
				g = append(g, vfESOp{Kind: "pub", Typ: rng.Intn(nTypes), EvID: ev, Pub: p})
			case r < 65:
				if alive[a] {
					g = append(g, vfESOp{Kind: "sub", Actor: a, Typ: rng.Intn(nTypes)})
				}
			case r < 82:
				if alive[a] {
					g = append(g, vfESOp{Kind: "unsub", Actor: a, Typ: rng.Intn(nTypes)})
				}
			case r < 90:
				if alive[a] {
					g = append(g, vfESOp{Kind: "unsuball", Actor: a})
				}
			case r < 95:
				if alive[a] && !usedActor[a] {
					alive[a] = false
					g = append(g, vfESOp{Kind: "kill", Actor: a})
				}
			default:
				if alive[a] && !usedActor[a] {
					g = append(g, vfESOp{Kind: "restart", Actor: a})
				}
			}
			usedActor[a] = true
		}
		if len(g) > 0 {
			groups = append(groups, g)
			n += len(g)
		}
	}
	return
}

func vfRunES(nActors, nTypes int, groups [][]vfESOp, res *vfCellResult) {
	w := newVfWorld()
	res.w = w
	add := func(kind, key, f string, a ...any) {
		res.viols = append(res.viols, vfViol{kind, key, fmt.Sprintf(f, a...)})
	}
	if err := w.start(); err != nil {
		add("harness-error", "start", "%v", err)
		return
	}
	sup := &vfSpec{Name: "sup", Strategy: vfStratOne, Decisions: []vivid.SupervisionDecision{vivid.SupervisionDecisionRestart}}
	for i := 0; i < nActors; i++ {
		cs := &vfSpec{Name: fmt.Sprintf("a%d", i), Provider: i%2 == 0}
		if i%4 == 1 {
			cs.Loop = 300 * time.Millisecond
		}
		sup.Children = append(sup.Children, cs)
	}
	// one more subscriber, outside the recorded history: it becomes a zombie at the end (failure, Restart decision, failing
	// Restarted hook) and is then killed - a termination path of its own, after which the stream must hold no entry for it
	sup.Children = append(sup.Children, &vfSpec{Name: "z", Subs: []int{0, 1}, HookFail: map[string]int{"restarted": 1}})
	// ... and another one that is killed and re-created under the same name by the supervisor in one handler at the end:
	// the successor subscribes at launch while the predecessor is still cleaning up; its subscription must stand
	ySpec := &vfSpec{Name: "y", Subs: []int{0}}
	sup.Children = append(sup.Children, ySpec)
	if _, err := w.spawnTop(sup); err != nil {
		add("harness-error", "spawn", "%v", err)
		return
	}
	w.wait()
	// vary the actors' termination paths: some are watched, some hold jobs (cleanup code runs next to UnsubscribeAll)
	for i := 0; i < nActors; i++ {
		if i%3 == 0 {
			w.tellName(fmt.Sprintf("a%d", (i+1)%nActors), &vfCmd{ID: w.newID(), Op: "watch", Arg: fmt.Sprintf("a%d", i)})
		}
	}
	w.wait()
	es := w.sys.eventStream
	type opRec struct {
		op        vfESOp
		call, ret int64
	}
	var mu sync.Mutex
	var recs []opRec
	pubSeq := map[int]int{}
	pubOf := map[int]vfESOp{}
	seqOf := map[int]int{}
	for _, g := range groups {
		var wg sync.WaitGroup
		for _, o := range g {
			if o.Kind == "pub" {
				pubSeq[o.Pub]++
				seqOf[o.EvID] = pubSeq[o.Pub]
				pubOf[o.EvID] = o
			}
		}
		for _, o := range g {
			wg.Add(1)
			go func(o vfESOp) {
				defer wg.Done()
				ref := w.ref(fmt.Sprintf("a%d", o.Actor))
				c := vfESCtx{ref}
				call := w.clock.Add(1)
				switch o.Kind {
				case "sub":
					es.Subscribe(c, vfStreamEvOf(o.Typ))
				case "unsub":
					es.Unsubscribe(c, vfStreamEvOf(o.Typ))
				case "unsuball":
					es.UnsubscribeAll(c)
				case "pub":
					es.Publish(vfESCtx{w.sys.Ref()}, vfMkStreamEv(o.Typ, vfStreamEv{Typ: o.Typ, ID: o.EvID, Pub: fmt.Sprint(o.Pub), Seq: seqOf[o.EvID]}))
				case "kill":
					w.sys.Kill(ref, false, "vf-es")
				case "restart":
					w.tell(ref, "actorof", &vfCmd{ID: w.newID(), Op: "panic"})
				}
				ret := w.clock.Add(1)
				mu.Lock()
				recs = append(recs, opRec{o, call, ret})
				mu.Unlock()
			}(o)
		}
		wg.Wait()
		w.wait()
	}
	w.settle(10 * time.Millisecond)
	log := w.snapshot()
	idx := func(path string) int {
		var i int
		if _, err := fmt.Sscanf(vfLast(path), "a%d", &i); err != nil {
			return -1
		}
		return i
	}
	// recipients per event, duplicates, per-publisher order
	recips := map[int]uint32{}
	seen := map[[2]int]int{}
	lastSeq := map[[2]string]int{}
	killedAt := map[int]int64{}
	for _, e := range log {
		switch {
		case e.Kind == "recv" && e.Msg == "SE":
			a := idx(e.Path)
			if a < 0 && (e.Path == "/sup/z" || e.Path == "/sup/y") {
				continue // the extra subscriber of the final phase: subscribed at launch, outside the recorded history
			}
			if a < 0 {
				add("c19-delivered-to-non-subscriber", "delivery", "event #%d delivered to %s which never subscribed", e.ID, e.Path)
				continue
			}
			recips[e.ID] |= 1 << uint(a)
			seen[[2]int{e.ID, a}]++
			if seen[[2]int{e.ID, a}] == 2 {
				add("c19-duplicate-delivery", "delivery", "event #%d received twice by %s", e.ID, e.Path)
			}
			po := pubOf[e.ID]
			k := [2]string{e.Path, fmt.Sprint(po.Pub)}
			if seqOf[e.ID] < lastSeq[k] {
				add("c19-publication-order", "delivery", "%s received event seq %d of publisher p%d after seq %d", e.Path, seqOf[e.ID], po.Pub, lastSeq[k])
			}
			lastSeq[k] = seqOf[e.ID]
		case e.Kind == "obs" && e.Msg == "dl:SE":
			if a := idx(e.Path); a >= 0 {
				recips[e.ID] |= 1 << uint(a)
			}
		case e.Kind == "obs" && e.Msg == "killed":
			if a := idx(e.Path); a >= 0 {
				killedAt[a] = e.T
			}
		}
	}
	// porcupine per type
	byType := map[int][]porcupine.Operation{}
	for _, r := range recs {
		o := r.op
		switch o.Kind {
		case "sub", "unsub":
			byType[o.Typ] = append(byType[o.Typ], porcupine.Operation{ClientId: o.Actor, Input: vfESIn{o.Kind, o.Actor}, Call: r.call, Return: r.ret, Output: uint32(0)})
		case "pub":
			byType[o.Typ] = append(byType[o.Typ], porcupine.Operation{ClientId: 20 + o.Pub, Input: vfESIn{"pub", 0}, Call: r.call, Return: r.ret, Output: recips[o.EvID]})
		case "unsuball", "kill":
			ret := r.ret
			if o.Kind == "kill" {
				if k, ok := killedAt[o.Actor]; ok && k > ret {
					ret = k
				} else if !ok {
					add("c19-kill-not-completed", "harness", "a%d never reported killed", o.Actor)
				}
			}
			for t := 0; t < nTypes; t++ {
				byType[t] = append(byType[t], porcupine.Operation{ClientId: o.Actor, Input: vfESIn{"unsub", o.Actor}, Call: r.call, Return: ret, Output: uint32(0)})
			}
		}
	}
	final := map[int]uint32{}
	for t := 0; t < nTypes; t++ {
		ops := byType[t]
		if len(ops) == 0 {
			continue
		}
		r, _ := porcupine.CheckOperationsVerbose(vfESModel, ops, 10*time.Second)
		switch r {
		case porcupine.Illegal:
			var d []string
			sort.Slice(ops, func(i, j int) bool { return ops[i].Call < ops[j].Call })
			for _, o := range ops {
				d = append(d, fmt.Sprintf("[%d,%d] %s", o.Call, o.Return, vfESModel.DescribeOperation(o.Input, o.Output)))
			}
			add("c19-not-linearizable", fmt.Sprintf("type-%d", t), "history of type T%d is not linearizable w.r.t. the model 'set of subscribers' (an event reached an actor that was not subscribed at publication, or missed one that was): %s", t, strings.Join(d, " ; "))
		case porcupine.Unknown:
			res.viols = append(res.viols, vfViol{"inconclusive", "porcupine", "timeout"})
		}
		// sequential final state (groups are quiescent-separated, inside a group ops on one (actor,type) may race:
		// take the tables themselves and only check dead actors / consistency between the two tables)
		_ = final
	}
	// the zombie's way out
	zpath := "/sup/z"
	w.tellName("z", &vfCmd{ID: w.newID(), Op: "panic"})
	w.settle(time.Second)
	zombie := false
	if cx := w.ctxOf(zpath); cx != nil {
		zombie = cx.zombie
	}
	w.sys.Kill(w.ref("z"), false, "vf-release-zombie")
	w.settle(time.Second)
	if zombie && w.ctxOf(zpath) == nil {
		est0 := es.(*eventStream)
		est0.mu.RLock()
		if ts := est0.subscriberTypes[zpath]; len(ts) > 0 {
			add("c19-table-leak", "subscriberTypes(zombie)", "%s was a zombie, was killed and is deregistered, but still has %d entries in subscriberTypes", zpath, len(ts))
		}
		for typ, subs := range est0.subscribers {
			if _, ok := subs[zpath]; ok {
				add("c19-table-leak", "subscribers(zombie)", "%s was a zombie, was killed and is deregistered, but is still in subscribers[%v]", zpath, typ)
			}
		}
		est0.mu.RUnlock()
		res.zombieReleased = true
	}
	// the re-created subscriber. In the plain unit one maximal delay is injected at a statement of the predecessor's
	// clean-up (killed_handler.go is instrumented by vinstr; "everything else runs to quiescence first"), so that the
	// successor is launched and subscribed while the predecessor sits at that statement
	for round := 0; round < 3; round++ {
		if len(vfESInjectSites) > 0 {
			verifrt.BeginInject(map[string]int64{vfESInjectSites[(round*7+len(log))%len(vfESInjectSites)]: 1}, 0)
		}
		w.tellName("sup", &vfCmd{ID: w.newID(), Op: "respawn", Arg: ySpec})
		w.settle(10 * time.Millisecond)
		if len(vfESInjectSites) > 0 {
			verifrt.End()
		}
		if w.ctxOf("/sup/y") == nil {
			break
		}
		estY := es.(*eventStream)
		estY.mu.RLock()
		_, inSubs := estY.subscribers[reflect.TypeOf(vfStreamEvOf(0))]["/sup/y"]
		_, inIdx := estY.subscriberTypes["/sup/y"]
		estY.mu.RUnlock()
		if !inSubs || !inIdx {
			add("c19-subscription-lost", "re-created subscriber", "/sup/y was killed and re-created under the same name (round %d); the new actor subscribed to T0 at launch and is alive, but the stream holds no entry for it (subscribers: %v, reverse index: %v): the predecessor's clean-up removed the successor's subscription", round, inSubs, inIdx)
			break
		}
	}
	// table invariants at quiescence
	est := es.(*eventStream)
	est.mu.RLock()
	for typ, subs := range est.subscribers {
		for p := range subs {
			if a := idx(p); a >= 0 {
				if _, dead := killedAt[a]; dead {
					add("c19-table-leak", "subscribers", "terminated %s still in subscribers[%v]", p, typ)
				}
				if _, ok := est.subscriberTypes[p][typ]; !ok {
					add("c19-table-inconsistent", "subscriberTypes", "%s in subscribers[%v] but not in the reverse index", p, typ)
				}
			}
		}
	}
	for p, types := range est.subscriberTypes {
		if a := idx(p); a >= 0 {
			if _, dead := killedAt[a]; dead {
				add("c19-table-leak", "subscriberTypes", "terminated %s still has %d entries in subscriberTypes", p, len(types))
			}
			for typ := range types {
				if _, ok := est.subscribers[typ][p]; !ok {
					add("c19-table-inconsistent", "subscribers", "%s has %v in the reverse index but is not in subscribers", p, typ)
				}
			}
		}
	}
	est.mu.RUnlock()
	_ = reflect.TypeOf
	res.viols = append(res.viols, w.oracleOverlap()...)
	nd := 0
	for _, r := range recips {
		for ; r != 0; r &= r - 1 {
			nd++
		}
	}
	res.sig = fmt.Sprintf("ops=%d deliveries=%d", len(recs), nd)
	if err := w.stop(); err != nil {
		add("c07-stop-error", "eventstream", "%v", err)
	}
}

func vfRunESCases(t *testing.T, R *verifrt.Report, check string, n int) {
	only := verifrt.EnvInt("VERIF_CASE", -1)
	for ci := 0; ci < n; ci++ {
		if !verifrt.Mine(ci) || (only >= 0 && only != ci) {
			continue
		}
		rng := verifrt.NewRand(verifrt.CaseSeed("eventstream", ci))
		na, nt, groups := vfGenES(rng)
		var gs []string
		for _, g := range groups {
			var s []string
			for _, o := range g {
				s = append(s, o.String())
			}
			gs = append(gs, strings.Join(s, " || "))
		}
		desc := fmt.Sprintf("actors=%d types=%d: %s", na, nt, strings.Join(gs, " ; "))
		R.Journal(ci, desc)
		res := &vfCellResult{}
		hang, stacks, pan := vfBubble(t, 90*time.Second, func() { vfRunES(na, nt, groups, res) })
		R.Eval()
		viols := res.viols
		if hang {
			viols = append(viols, vfViol{"c19-hang", "bubble", verifrt.Short(stacks, 4000)})
		}
		if pan != nil {
			viols = append(viols, vfViol{"harness-panic", "bubble", verifrt.Short(fmt.Sprint(pan), 2000)})
		}
		if !strings.HasSuffix(res.sig, "deliveries=0") && res.sig != "" {
			R.Nontrivial(desc)
		}
		var nd int64
		fmt.Sscanf(res.sig[strings.Index(res.sig+"deliveries=0", "deliveries=")+11:], "%d", &nd)
		R.Obs("deliveries_observed", nd)
		seen := map[string]bool{}
		for _, v := range viols {
			if v.Kind == "inconclusive" {
				R.Inconcl(fmt.Sprintf("case %d: porcupine timeout", ci))
				continue
			}
			if seen[v.Kind] {
				continue
			}
			seen[v.Kind] = true
			R.Violate(ci, v.Kind, v.Key, v.Detail+" | history: "+verifrt.Short(desc, 2500), map[string]any{"history": desc})
		}
		if ci < 3 {
			R.Sample(map[string]any{"history": verifrt.Short(desc, 900), "observed": res.sig})
		}
		if hang {
			R.Flush()
			t.Fatalf("hang")
		}
	}
}

const vfESRule = "PRNG histories: 2-12 subscriber actors under a restarting supervisor, 1-6 sequential publishers, 1-5 event types, 8-60 ops in groups of 1-4 issued from separate goroutines at one virtual instant (Subscribe / Unsubscribe / UnsubscribeAll / Publish / kill a subscriber / restart a subscriber), quiescence between groups; recipients(e) = actors that processed or dead-lettered e; porcupine per event type against the sequential model 'set of subscribers' (termination = UnsubscribeAll over [kill call, ActorKilledEvent]), duplicate-delivery and per-publisher order ledger, consistency of the two subscriber tables and absence of dead actors in them at quiescence; finally one more subscriber is turned into a zombie (failing Restarted hook) and killed: no entry of it may remain. non-trivial+distinct = distinct histories with >= 1 delivery"

// vfESInjectSites: yield points inside the termination clean-up (collected by a warm-up run in count mode); set by the
// plain unit only - the race unit runs the same histories free, with its own fuzz controller
var vfESInjectSites []string

func TestVerif_eventstream(t *testing.T) {
	R := verifrt.NewReport("eventstream", vfESRule)
	defer R.Flush()
	n := verifrt.EnvInt("VERIF_N", 3000)
	if verifrt.Thorough() {
		n = 100000
	}
	// warm-up: which clean-up statements does a termination execute?
	{
		rng := verifrt.NewRand(verifrt.CaseSeed("eventstream-warm", 0))
		na, nt, groups := vfGenES(rng)
		res := &vfCellResult{}
		c := verifrt.Begin(verifrt.ModeCount, 1, 0)
		vfBubble(t, 60*time.Second, func() { vfRunES(na, nt, groups, res) })
		verifrt.End()
		set := map[string]bool{}
		for st := range c.Sites() {
			if strings.Contains(st, "cleanupIfNotRestarting") {
				set[st] = true
			}
		}
		vfESInjectSites = verifrt.SortedKeys(set)
		R.ObsMax("max:cleanup_yield_points", int64(len(vfESInjectSites)))
	}
	vfRunESCases(t, R, "eventstream", n)
}

// same histories, fewer of them, under the race detector (the bubble runs goroutines truly in parallel)
func TestVerif_eventstreamrace(t *testing.T) {
	R := verifrt.NewReport("eventstreamrace", "race-detector build of: "+vfESRule)
	defer R.Flush()
	n := verifrt.EnvInt("VERIF_N", 400)
	if verifrt.Thorough() {
		n = 8000
	}
	// yield points inserted into event_stream.go (vinstr) run in the lock-free fuzz mode: they widen the windows between
	// the stream's critical sections without adding happens-before edges that would hide a race from the detector
	verifrt.Begin(verifrt.ModeFuzzFree, verifrt.Seed(), 0)
	defer verifrt.End()
	vfRunESCases(t, R, "eventstreamrace", n)
}
