//go:build verif

package actor

import (
	"errors"
	"fmt"
	"sort"
	"strings"
	"sync"
	"testing"
	"time"

	"github.com/kercylan98/vivid"
	"github.com/kercylan98/vivid/internal/verifrt"
)

// C04 — every Ask completes exactly once with its own reply, timeout or death (DESIGN §4 C04).

type vfAskMsg struct {
	AskID  int
	Script string        // now | after | never | twice
	Delay  time.Duration // for "after"
}

type vfReply struct {
	AskID int
	N     int
}

type vfAskSpec struct {
	AskID      int
	At         time.Duration
	Asker      int
	Responder  int
	Script     string
	Delay      time.Duration
	Timeout    time.Duration
	TimeoutSet bool // false: default ask timeout (1s)
	Waiters    int
	UseWait    bool
	CloseAt    time.Duration // <0: never
	PipeAt     time.Duration // <0: never
	PipeN      int
}

func (a vfAskSpec) String() string {
	to := "default"
	if a.TimeoutSet {
		to = a.Timeout.String()
	}
	s := fmt.Sprintf("@%v ask#%d k%d->r%d %s", a.At, a.AskID, a.Asker, a.Responder, a.Script)
	if a.Script == "after" {
		s += "(" + a.Delay.String() + ")"
	}
	s += " timeout=" + to + fmt.Sprintf(" waiters=%d", a.Waiters)
	if a.CloseAt >= 0 {
		s += fmt.Sprintf(" close@%v", a.CloseAt)
	}
	if a.PipeAt >= 0 {
		s += fmt.Sprintf(" pipe@%v x%d", a.PipeAt, a.PipeN)
	}
	return s
}

type vfFutRec struct {
	spec     vfAskSpec
	f        vivid.Future[vivid.Message]
	askedAt  time.Duration
	results  []vfFutResult
}

type vfFutResult struct {
	waiter int
	val    string
	err    string
	errK   string // timeout | dead | closed | other | ""
	at     time.Duration
}

type vfFutWorld struct {
	*vfWorld
	fmu  sync.Mutex
	futs      map[int]*vfFutRec
	replies   map[int][]time.Duration // ask id -> instants at which the responder sent reply N=1
	errClosed error
}

func vfErrKind(err error) string {
	switch {
	case err == nil:
		return ""
	case errors.Is(err, vivid.ErrorFutureTimeout):
		return "timeout"
	case errors.Is(err, vivid.ErrorActorDeaded):
		return "dead"
	case strings.Contains(err.Error(), "vf-closed"):
		return "closed"
	}
	return "other:" + err.Error()
}

// actor roles: askers handle cmd "ask"; responders handle *vfAskMsg
func (a *vfActor) execAsk(ctx vivid.ActorContext, spec vfAskSpec, fw *vfFutWorld) {
	target := fw.ref(fmt.Sprintf("r%d", spec.Responder))
	msg := &vfAskMsg{AskID: spec.AskID, Script: spec.Script, Delay: spec.Delay}
	var f vivid.Future[vivid.Message]
	if spec.TimeoutSet {
		f = ctx.Ask(target, msg, spec.Timeout)
	} else {
		f = ctx.Ask(target, msg)
	}
	rec := &vfFutRec{spec: spec, f: f, askedAt: time.Since(fw.t0)}
	fw.fmu.Lock()
	fw.futs[spec.AskID] = rec
	fw.fmu.Unlock()
	for i := 0; i < spec.Waiters; i++ {
		go func(i int) {
			var v vivid.Message
			var err error
			if spec.UseWait && i%2 == 1 {
				err = f.Wait()
			} else {
				v, err = f.Result()
			}
			r := vfFutResult{waiter: i, at: time.Since(fw.t0), errK: vfErrKind(err)}
			if err != nil {
				r.err = err.Error()
			}
			if rp, ok := v.(*vfReply); ok {
				r.val = fmt.Sprintf("reply(ask=%d,n=%d)", rp.AskID, rp.N)
			} else if v != nil {
				r.val = fmt.Sprintf("%T", v)
			}
			if spec.UseWait && i%2 == 1 {
				r.val = "<wait>"
			}
			fw.fmu.Lock()
			rec.results = append(rec.results, r)
			fw.fmu.Unlock()
		}(i)
	}
}

func (a *vfActor) onAskMsg(ctx vivid.ActorContext, m *vfAskMsg, fw *vfFutWorld) {
	note := func() { // keyed by ask id: the asker may not have recorded its future yet
		fw.fmu.Lock()
		fw.replies[m.AskID] = append(fw.replies[m.AskID], time.Since(fw.t0))
		fw.fmu.Unlock()
	}
	switch m.Script {
	case "now":
		note()
		ctx.Reply(&vfReply{AskID: m.AskID, N: 1})
	case "twice":
		note()
		ctx.Reply(&vfReply{AskID: m.AskID, N: 1})
		ctx.Reply(&vfReply{AskID: m.AskID, N: 2})
	case "after":
		sender := ctx.Sender()
		go func() {
			time.Sleep(m.Delay)
			note()
			ctx.Tell(sender, &vfReply{AskID: m.AskID, N: 1})
		}()
	case "never":
	}
}

// vfFutRespawn: askers that are re-created under the same name right after their kill (set by the generator,
// read by the runner; keyed by asker index, valid for the case being run)
var vfFutRespawn map[int]bool

// default Ask timeouts of the case being run: per asker (WithActorDefaultAskTimeout, 0 = not set) and of the system
// (WithActorSystemDefaultAskTimeout, 0 = not set, i.e. the library's 1 s). An Ask without an explicit timeout must time
// out exactly at the asker's own default if it has one, else at the system's.
var (
	vfFutAskerDefault map[int]time.Duration
	vfFutSysDefault   time.Duration
	// vfFutPanicAt: askers (living under a restarting supervisor in that case) that fail at the given instant; their
	// Restarted hook fails, so they end up as zombies - and are killed later (kills). An Ask outstanding at the failure
	// may be completed with the actor-dead error right then (the restart ends the incarnation that asked) or at the
	// latest when the zombie is killed.
	vfFutPanicAt map[int]time.Duration
)

func vfFutEffectiveDefault(asker int) time.Duration {
	if d := vfFutAskerDefault[asker]; d > 0 {
		return d
	}
	if vfFutSysDefault > 0 {
		return vfFutSysDefault
	}
	return time.Second
}

// vfGenKillRace: the asker dies while many of its Asks are outstanding and others are completing at that very moment.
// Old asks (issued at 0: never answered, or answered long after the kill; no / long / default timeout) are certainly
// outstanding at the kill instant kt; at kt a volley of new asks that are answered at once is issued together with the
// Kill, so replies, self-removal of completed futures and the kill's sweep over the asker's futures race for real.
// Every future asked before the kill must complete with the actor-dead error at kt (or with its reply / timeout if that
// is due at the same instant).
func vfGenKillRace(rng *verifrt.Rand) (nAskers, nResp int, asks []vfAskSpec, kills map[int]time.Duration) {
	nAskers = 1 + rng.Intn(2)
	nResp = 1 + rng.Intn(3)
	kt := []time.Duration{time.Millisecond, 10 * time.Millisecond, 100 * time.Millisecond}[rng.Intn(3)]
	kills = map[int]time.Duration{0: kt}
	if rng.Chance(40) {
		vfFutRespawn[0] = true
	}
	nOld := 2 + rng.Intn(20)
	nNew := 2 + rng.Intn(20)
	id := 0
	for i := 0; i < nOld; i++ {
		id++
		a := vfAskSpec{AskID: id, At: 0, Asker: 0, Responder: rng.Intn(nResp), Script: "never", CloseAt: -1, PipeAt: -1, Waiters: 1 + rng.Intn(2), UseWait: rng.Bool()}
		if rng.Chance(30) {
			a.Script, a.Delay = "after", 10*kt
		}
		switch rng.Intn(4) {
		case 0:
			a.TimeoutSet, a.Timeout = true, 0
		case 1: // default (1 s)
		case 2:
			a.TimeoutSet, a.Timeout = true, kt // the timeout is due at the kill instant: either outcome
		case 3:
			a.TimeoutSet, a.Timeout = true, 5*kt
		}
		if nAskers > 1 && rng.Chance(20) {
			a.Asker = 1 // bystander: must not be affected by the other asker's death
		}
		asks = append(asks, a)
	}
	for i := 0; i < nNew; i++ {
		id++
		a := vfAskSpec{AskID: id, At: kt, Asker: 0, Responder: rng.Intn(nResp), Script: "now", CloseAt: -1, PipeAt: -1, Waiters: 1, UseWait: rng.Bool()}
		if rng.Chance(25) {
			a.Script = "never"
		}
		if rng.Chance(50) {
			a.TimeoutSet, a.Timeout = true, []time.Duration{0, 10 * kt}[rng.Intn(2)]
		}
		asks = append(asks, a)
	}
	sort.SliceStable(asks, func(i, j int) bool { return asks[i].At < asks[j].At })
	return
}

// vfGenZombieAsker: asker 0 has outstanding Asks, fails, is restarted by its supervisor, its Restarted hook fails (zombie),
// and it is killed later. A second asker is a bystander.
func vfGenZombieAsker(rng *verifrt.Rand) (nAskers, nResp int, asks []vfAskSpec, kills map[int]time.Duration) {
	nAskers, nResp = 2, 1+rng.Intn(2)
	tp := []time.Duration{time.Millisecond, 10 * time.Millisecond, 50 * time.Millisecond}[rng.Intn(3)]
	tk := tp + []time.Duration{time.Millisecond, 20 * time.Millisecond, 200 * time.Millisecond}[rng.Intn(3)]
	vfFutPanicAt[0] = tp
	kills = map[int]time.Duration{0: tk}
	n := 2 + rng.Intn(10)
	for i := 0; i < n; i++ {
		a := vfAskSpec{AskID: i + 1, At: 0, Asker: 0, Responder: rng.Intn(nResp), Script: "never", CloseAt: -1, PipeAt: -1, Waiters: 1 + rng.Intn(2), UseWait: rng.Bool()}
		switch rng.Intn(4) {
		case 0:
			a.Script, a.Delay = "after", 2*time.Second // the reply comes long after the death
		case 1:
			a.Script, a.Delay = "after", tp/2+1 // answered before the failure
		}
		switch rng.Intn(4) {
		case 0:
			a.TimeoutSet, a.Timeout = true, 0
		case 1: // default
		case 2:
			a.TimeoutSet, a.Timeout = true, 2*time.Second
		case 3:
			a.TimeoutSet, a.Timeout = true, tp+(tk-tp)/2 // due between the failure and the kill
		}
		if rng.Chance(20) {
			a.Asker = 1
		}
		asks = append(asks, a)
	}
	return
}

func vfGenFutures(rng *verifrt.Rand) (nAskers, nResp int, asks []vfAskSpec, kills map[int]time.Duration) {
	vfFutRespawn = map[int]bool{}
	vfFutAskerDefault = map[int]time.Duration{}
	vfFutSysDefault = []time.Duration{0, 0, 700 * time.Millisecond, 40 * time.Millisecond}[rng.Intn(4)]
	for k := 0; k < 5; k++ {
		vfFutAskerDefault[k] = []time.Duration{0, 0, 50 * time.Millisecond, 300 * time.Millisecond, 1500 * time.Millisecond}[rng.Intn(5)]
	}
	vfFutPanicAt = map[int]time.Duration{}
	if rng.Chance(15) {
		return vfGenKillRace(rng)
	}
	if rng.Chance(9) {
		return vfGenZombieAsker(rng)
	}
	nAskers = 1 + rng.Intn(5)
	nResp = 1 + rng.Intn(3)
	n := 1 + rng.Intn(50)
	if rng.Chance(60) {
		n = 1 + rng.Intn(8)
	}
	instants := []time.Duration{0, 0, 0, time.Millisecond, 10 * time.Millisecond, 100 * time.Millisecond}
	timeouts := []time.Duration{1, time.Microsecond, time.Millisecond, 10 * time.Millisecond, 100 * time.Millisecond, 0}
	delays := []time.Duration{1, time.Microsecond, time.Millisecond, 10 * time.Millisecond, 100 * time.Millisecond, time.Second, 2 * time.Second}
	scripts := []string{"now", "now", "after", "after", "never", "twice"}
	kills = map[int]time.Duration{}
	for k := 0; k < nAskers; k++ {
		if rng.Chance(25) {
			kills[k] = []time.Duration{0, time.Millisecond, 10 * time.Millisecond, 100 * time.Millisecond, 500 * time.Millisecond}[rng.Intn(5)]
			if rng.Chance(60) {
				vfFutRespawn[k] = true // a new actor with the same name takes over; late replies to the old one are in flight
			}
		}
	}
	pipes := 0
	for i := 0; i < n; i++ {
		a := vfAskSpec{AskID: i + 1, At: instants[rng.Intn(len(instants))], Asker: rng.Intn(nAskers), Responder: rng.Intn(nResp), Script: scripts[rng.Intn(len(scripts))], CloseAt: -1, PipeAt: -1}
		a.Delay = delays[rng.Intn(len(delays))]
		if rng.Chance(75) {
			a.TimeoutSet = true
			a.Timeout = timeouts[rng.Intn(len(timeouts))]
		}
		a.Waiters = 1 + rng.Intn(3)
		if rng.Chance(15) {
			a.Waiters = 8
		}
		a.UseWait = rng.Bool()
		if rng.Chance(15) {
			a.CloseAt = a.At + []time.Duration{0, time.Microsecond, time.Millisecond, 10 * time.Millisecond, 100 * time.Millisecond}[rng.Intn(5)]
		}
		if pipes < 6 && rng.Chance(25) {
			pipes++
			a.PipeAt = a.At + []time.Duration{0, 0, time.Millisecond, 10 * time.Millisecond, 100 * time.Millisecond, 1500 * time.Millisecond}[rng.Intn(6)]
			a.PipeN = 1 + rng.Intn(2)
		}
		if kt, ok := kills[a.Asker]; ok && a.At > kt && !vfFutRespawn[a.Asker] {
			a.At = kt // asks issued to a dead asker are just dead letters: keep them before the kill
		}
		asks = append(asks, a)
	}
	sort.SliceStable(asks, func(i, j int) bool { return asks[i].At < asks[j].At })
	return
}

// vfFutTol: with injected 1 ns delays inside vivid code the candidate instants taken at the API boundary are
// off by the delays spent inside the calls; instants closer than this are treated as the same instant.
var vfFutTol time.Duration

func vfRunFutures(nAskers, nResp int, asks []vfAskSpec, kills map[int]time.Duration, res *vfCellResult) {
	var sysOpts []vivid.ActorSystemOption
	if vfFutSysDefault > 0 {
		sysOpts = append(sysOpts, vivid.WithActorSystemDefaultAskTimeout(vfFutSysDefault))
	}
	w := newVfWorld(sysOpts...)
	res.w = w
	fw := &vfFutWorld{vfWorld: w, futs: map[int]*vfFutRec{}, replies: map[int][]time.Duration{}, errClosed: errors.New("vf-closed")}
	w.fut = fw
	add := func(kind, key, f string, a ...any) {
		res.viols = append(res.viols, vfViol{kind, key, fmt.Sprintf(f, a...)})
	}
	if err := w.start(); err != nil {
		add("harness-error", "start", "%v", err)
		return
	}
	if len(vfFutPanicAt) > 0 {
		sup := &vfSpec{Name: "ksup", Strategy: vfStratOne, Decisions: []vivid.SupervisionDecision{vivid.SupervisionDecisionRestart}}
		for k := 0; k < nAskers; k++ {
			cs := &vfSpec{Name: fmt.Sprintf("k%d", k), AskTimeout: vfFutAskerDefault[k]}
			if _, fails := vfFutPanicAt[k]; fails {
				cs.HookFail = map[string]int{"restarted": 1}
			}
			sup.Children = append(sup.Children, cs)
		}
		w.spawnTop(sup)
	} else {
		for k := 0; k < nAskers; k++ {
			w.spawnTop(&vfSpec{Name: fmt.Sprintf("k%d", k), AskTimeout: vfFutAskerDefault[k]})
		}
	}
	for r := 0; r < nResp; r++ {
		w.spawnTop(&vfSpec{Name: fmt.Sprintf("r%d", r)})
	}
	for _, a := range asks {
		for p := 0; p < a.PipeN; p++ {
			w.spawnTop(&vfSpec{Name: fmt.Sprintf("fw%d_%d", a.AskID, p)})
		}
	}
	w.wait()
	start := time.Now()
	w.t0 = start
	// timeline of external actions
	type action struct {
		at   time.Duration
		kind string
		ask  vfAskSpec
		k    int
	}
	var acts []action
	for _, a := range asks {
		acts = append(acts, action{a.At, "ask", a, 0})
		if a.CloseAt >= 0 {
			acts = append(acts, action{a.CloseAt, "close", a, 0})
		}
		if a.PipeAt >= 0 {
			acts = append(acts, action{a.PipeAt, "pipe", a, 0})
		}
	}
	for k, t := range kills {
		acts = append(acts, action{t, "kill", vfAskSpec{}, k})
	}
	for k, t := range vfFutPanicAt {
		acts = append(acts, action{t, "panic", vfAskSpec{}, k})
	}
	sort.SliceStable(acts, func(i, j int) bool { return acts[i].at < acts[j].at })
	closedAt := map[int]time.Duration{}
	pipedAt := map[int]time.Duration{}
	for i := 0; i < len(acts); {
		at := acts[i].at
		if d := at - time.Since(start); d > 0 {
			time.Sleep(d)
			w.wait()
		}
		// everything scheduled for this instant is issued from separate goroutines (races for real)
		var wg sync.WaitGroup
		j := i
		// asks first must have been processed before close/pipe can find the future: asks of this instant, then quiesce
		for ; j < len(acts) && acts[j].at == at; j++ {
			if acts[j].kind == "ask" {
				a := acts[j].ask
				w.sys.Tell(w.ref(fmt.Sprintf("k%d", a.Asker)), &vfCmd{ID: w.newID(), Op: "ask", Arg: a})
			}
		}
		// do not quiesce: close / pipe / kill of this instant race with the asks being processed and answered
		for x := i; x < j; x++ {
			ac := acts[x]
			if ac.kind == "ask" {
				continue
			}
			wg.Add(1)
			go func(ac action) {
				defer wg.Done()
				switch ac.kind {
				case "panic":
					w.sys.Tell(w.ref(fmt.Sprintf("k%d", ac.k)), &vfCmd{ID: w.newID(), Op: "panic"})
				case "kill":
					w.sys.Kill(w.ref(fmt.Sprintf("k%d", ac.k)), false, "vf-fut")
				case "close", "pipe":
					// the future exists once the asker handled the ask command: wait for it (bounded spin on virtual 0-time)
					var rec *vfFutRec
					for try := 0; try < 2000 && rec == nil; try++ {
						fw.fmu.Lock()
						rec = fw.futs[ac.ask.AskID]
						fw.fmu.Unlock()
						if rec == nil {
							time.Sleep(time.Nanosecond)
						}
					}
					if rec == nil {
						return
					}
					if ac.kind == "close" {
						fw.fmu.Lock()
						closedAt[ac.ask.AskID] = time.Since(start)
						fw.fmu.Unlock()
						rec.f.Close(fw.errClosed)
					} else {
						var refs vivid.ActorRefs
						for p := 0; p < ac.ask.PipeN; p++ {
							refs = append(refs, w.ref(fmt.Sprintf("fw%d_%d", ac.ask.AskID, p)))
						}
						fw.fmu.Lock()
						pipedAt[ac.ask.AskID] = time.Since(start)
						fw.fmu.Unlock()
						_ = rec.f.PipeTo(refs)
					}
				}
			}(ac)
		}
		wg.Wait()
		w.wait()
		for x := i; x < j; x++ {
			if acts[x].kind == "kill" && vfFutRespawn[acts[x].k] {
				w.spawnTop(&vfSpec{Name: fmt.Sprintf("k%d", acts[x].k), AskTimeout: vfFutAskerDefault[acts[x].k]})
			}
		}
		w.wait()
		i = j
	}
	// let every timer fire (default timeout 1 s, longest reply delay 2 s)
	time.Sleep(3 * time.Second)
	w.wait()
	// close the futures that can never complete (no timeout, no reply), then the registry must be empty
	fw.fmu.Lock()
	var open []*vfFutRec
	for _, r := range fw.futs {
		if len(r.results) < r.spec.Waiters {
			open = append(open, r)
		}
	}
	fw.fmu.Unlock()
	for _, r := range open {
		canComplete := !(r.spec.TimeoutSet && r.spec.Timeout == 0) || r.spec.Script == "now" || r.spec.Script == "twice" || r.spec.Script == "after"
		if kt, killed := kills[r.spec.Asker]; killed && kt >= r.askedAt {
			canComplete = true // asked by the incarnation that was killed afterwards
		}
		if canComplete || r.spec.CloseAt >= 0 {
			add("c04-future-never-completed", r.spec.Script, "ask %s: %d of %d waiters are still blocked in Result/Wait 3 virtual seconds after the last candidate completion instant", r.spec, r.spec.Waiters-len(r.results), r.spec.Waiters)
		}
		fw.fmu.Lock()
		closedAt[r.spec.AskID] = time.Since(start)
		fw.fmu.Unlock()
		r.f.Close(fw.errClosed)
	}
	// waiters released by that Close may sit in an injected (virtual) delay: let virtual time pass before quiescing,
	// otherwise the bubble ends with a goroutine still sleeping in the injected delay (harness artefact, §8)
	w.wait()
	time.Sleep(time.Millisecond)
	w.wait()
	log := w.snapshot()
	fw.fmu.Lock()
	ids := make([]int, 0, len(fw.futs))
	for id := range fw.futs {
		ids = append(ids, id)
	}
	sort.Ints(ids)
	outcomes := map[string]int{}
	for _, id := range ids {
		r := fw.futs[id]
		sp := r.spec
		if len(r.results) == 0 {
			continue
		}
		// one-shot: all observers agree
		first := r.results[0]
		for _, x := range r.results[1:] {
			if x.errK != first.errK || (x.val != first.val && x.val != "<wait>" && first.val != "<wait>") {
				add("c04-observers-disagree", "Result/Wait", "ask %s: waiter %d saw (%s,%s) but waiter %d saw (%s,%s)", sp, first.waiter, first.val, first.errK, x.waiter, x.val, x.errK)
				break
			}
			if d := x.at - first.at; d > vfFutTol || -d > vfFutTol {
				add("c04-observers-disagree", "completion instant", "ask %s: waiters unblocked at different virtual instants %v vs %v", sp, first.at, x.at)
				break
			}
		}
		val := ""
		for _, x := range r.results {
			if x.val != "<wait>" {
				val = x.val
			}
		}
		// own reply, first reply
		if first.errK == "" && val != "" && val != fmt.Sprintf("reply(ask=%d,n=1)", sp.AskID) {
			add("c04-foreign-or-late-reply", "reply", "ask %s completed with %s (want the first reply addressed to it)", sp, val)
		}
		// candidate set
		type cand struct {
			at   time.Duration
			kind string
		}
		var cands []cand
		var earliest time.Duration
		var ok bool
		to := vfFutEffectiveDefault(sp.Asker)
		if rp := fw.replies[id]; len(rp) > 0 {
			cands = append(cands, cand{rp[0], ""})
		}
		if sp.TimeoutSet {
			to = sp.Timeout
		}
		if to > 0 {
			cands = append(cands, cand{r.askedAt + to, "timeout"})
		}
		if kt, ok := kills[sp.Asker]; ok && kt >= r.askedAt {
			cands = append(cands, cand{kt, "dead"})
		}
		if ct, ok := closedAt[id]; ok {
			cands = append(cands, cand{ct, "closed"})
		}
		if tp, fails := vfFutPanicAt[sp.Asker]; fails && tp >= r.askedAt && first.errK == "dead" {
			if d := first.at - tp; d <= vfFutTol+time.Microsecond && d >= -vfFutTol {
				// completed with actor-dead when the incarnation that asked ended in the restart: legitimate
				outcomes[first.errK]++
				goto forwarders
			}
		}
		if vfFutTol > 0 {
			// inject tier: delays inside vivid calls shift the instants observed at the API boundary and reorder
			// same-instant actions; exact-instant clauses are decided by the un-injected tier only
			// ... except gross lateness: the injected delays are 1 ns each, so a completion more than 1 us after the
			// earliest due candidate is late whatever the interleaving was
			if len(cands) > 0 {
				sort.Slice(cands, func(i, j int) bool { return cands[i].at < cands[j].at })
				if d := first.at - cands[0].at; d > time.Microsecond {
					add("c04-completed-late", first.errK, "ask %s (asked at %v) completed at %v with (%s,%s); earliest due completion is at %v (candidates %v)", sp, r.askedAt, first.at, val, first.errK, cands[0].at, cands)
				}
			}
			outcomes[first.errK]++
			goto forwarders
		}
		if len(cands) == 0 {
			add("c04-completed-without-cause", first.errK, "ask %s completed with (%s,%s) at %v although no reply, timeout, death or Close was due", sp, val, first.errK, first.at)
			continue
		}
		sort.Slice(cands, func(i, j int) bool { return cands[i].at < cands[j].at })
		earliest = cands[0].at
		ok = false
		for _, c := range cands {
			if c.at-earliest <= vfFutTol && c.kind == first.errK {
				ok = true
			}
		}
		if d := first.at - earliest; d > vfFutTol || -d > vfFutTol {
			kind := "c04-completed-late"
			if first.at < earliest {
				kind = "c04-completed-early"
				if first.errK == "timeout" {
					kind = "c04-timeout-before-deadline"
				}
			}
			add(kind, first.errK, "ask %s (asked at %v) completed at %v with (%s,%s); earliest due completion is at %v (candidates %v)", sp, r.askedAt, first.at, val, first.errK, earliest, cands)
		} else if !ok {
			add("c04-wrong-outcome", first.errK, "ask %s completed at %v with (%s,%s) but the completion due at that instant is one of %v", sp, first.at, val, first.errK, cands)
		}
		outcomes[first.errK]++
	forwarders:
		if pt, piped := pipedAt[id]; piped {
			_ = pt
			for p := 0; p < sp.PipeN; p++ {
				path := fmt.Sprintf("/fw%d_%d", sp.AskID, p)
				var got []string
				for _, e := range log {
					if e.Kind == "recv" && e.Path == path && e.Msg == "PR" {
						got = append(got, e.Aux)
					}
				}
				want := fmt.Sprintf("pr(%s,%s)", val, first.errK)
				if val == "" && first.errK == "" {
					continue
				}
				if len(got) != 1 {
					add("c04-forwarder-count", "PipeTo", "ask %s: forwarder %s received %d PipeResult(s) %v, want exactly 1", sp, path, len(got), got)
				} else if !strings.Contains(got[0], want) {
					add("c04-forwarder-result", "PipeTo", "ask %s: forwarder %s received %s, future result is %s", sp, path, got[0], want)
				}
			}
		}
	}
	fw.fmu.Unlock()
	// registrations
	_, futs := w.registry()
	if len(futs) > 0 {
		add("c04-registration-leak", "actorContexts", "%d future registration(s) still in the registry after every future completed: %v", len(futs), futs)
	}
	w.sys.futureLock.Lock()
	nAgents := len(w.sys.futureAgents)
	var leaked []string
	for k, m := range w.sys.futureAgents {
		leaked = append(leaked, fmt.Sprintf("%s:%d", k, len(m)))
	}
	w.sys.futureLock.Unlock()
	if nAgents > 0 {
		add("c04-registration-leak", "futureAgents", "futureAgents still holds entries after every future completed: %v", leaked)
	}
	res.viols = append(res.viols, w.oracleOverlap()...)
	var os []string
	for k, v := range outcomes {
		if k == "" {
			k = "reply"
		}
		os = append(os, fmt.Sprintf("%s=%d", k, v))
	}
	sort.Strings(os)
	res.sig = strings.Join(os, ",")
	if err := w.stop(); err != nil {
		add("c07-stop-error", "futures", "%v", err)
	}
}

func vfRunFutureCases(t *testing.T, R *verifrt.Report, n int) {
	only := verifrt.EnvInt("VERIF_CASE", -1)
	for ci := 0; ci < n; ci++ {
		if !verifrt.Mine(ci) || (only >= 0 && only != ci) {
			continue
		}
		rng := verifrt.NewRand(verifrt.CaseSeed("futures", ci))
		na, nr, asks, kills := vfGenFutures(rng)
		var ps []string
		for _, a := range asks {
			ps = append(ps, a.String())
		}
		for k, t := range kills {
			ps = append(ps, fmt.Sprintf("kill k%d @%v", k, t))
		}
		desc := strings.Join(ps, " ; ")
		R.Journal(ci, desc)
		res := &vfCellResult{}
		hang, stacks, pan := vfBubble(t, 90*time.Second, func() { vfRunFutures(na, nr, asks, kills, res) })
		R.Eval()
		viols := res.viols
		if hang {
			viols = append(viols, vfViol{"c04-hang", "bubble", verifrt.Short(stacks, 40000)})
		}
		if pan != nil {
			ps := fmt.Sprint(pan)
			kind := "c04-goroutines-left"
			if !strings.Contains(ps, "deadlock") && !strings.Contains(ps, "blocked") {
				kind = "harness-panic"
			}
			viols = append(viols, vfViol{kind, "bubble", verifrt.Short(ps, 3000)})
		}
		if res.sig != "" {
			R.Nontrivial(desc)
			for _, kv := range strings.Split(res.sig, ",") {
				p := strings.SplitN(kv, "=", 2)
				var x int64
				fmt.Sscan(p[1], &x)
				R.Obs("completed_by_"+p[0], x)
			}
		}
		seen := map[string]bool{}
		for _, v := range viols {
			if seen[v.Kind+v.Key] {
				continue
			}
			seen[v.Kind+v.Key] = true
			R.Violate(ci, v.Kind, v.Key, v.Detail+" | scenario: "+verifrt.Short(desc, 2500), map[string]any{"scenario": desc})
		}
		if ci < 3 {
			R.Sample(map[string]any{"scenario": verifrt.Short(desc, 900), "outcomes": res.sig})
		}
		if hang {
			R.Flush()
			t.Fatalf("hang")
		}
	}
}

const vfFutRule = "PRNG scenarios in a synctest bubble: 1-50 Asks from 1-5 asker actors to scripted responders {reply now, reply after d in 1ns..2s, never, reply twice}, timeouts {1ns, 1us, 1ms, 10ms, 100ms, 0 (= none), default: the asker's own WithActorDefaultAskTimeout (50 ms / 300 ms / 1.5 s) if set, else the system's WithActorSystemDefaultAskTimeout (40 ms / 700 ms) if set, else 1 s}, 1-8 goroutines per future blocked in Result()/Wait(), Close and PipeTo (1-2 forwarder actors) from other goroutines before / at / after completion, asker killed at a chosen instant; askers that fail with Asks outstanding, are restarted, turn into zombies (failing Restarted hook) and are killed later; actions of one virtual instant race for real. Oracle: all observers of a future agree on (value, error, instant); the value is the first reply carrying the future's own ask id; the completion is the earliest of {first reply instant, ask+timeout, asker kill, Close} with the matching outcome (ties at one instant accepted either way); each forwarder gets exactly one PipeResult equal to Result(); afterwards the registry and futureAgents hold nothing. non-trivial+distinct = distinct scenarios with >= 1 completed future"

func TestVerif_futures(t *testing.T) {
	R := verifrt.NewReport("futures", vfFutRule)
	defer R.Flush()
	n := verifrt.EnvInt("VERIF_N", 4000)
	if verifrt.Thorough() {
		n = 100000
	}
	vfRunFutureCases(t, R, n)
}

func TestVerif_futuresrace(t *testing.T) {
	R := verifrt.NewReport("futuresrace", "race-detector build of: "+vfFutRule)
	defer R.Flush()
	n := verifrt.EnvInt("VERIF_N", 300)
	if verifrt.Thorough() {
		n = 8000
	}
	// yield points in future.go / system.go / context.go (vinstr), lock-free fuzz mode (no happens-before edges added)
	verifrt.Begin(verifrt.ModeFuzzFree, verifrt.Seed(), 0)
	defer verifrt.End()
	vfRunFutureCases(t, R, n)
}

// futuresinject: the same scenarios with one or two maximal delays injected at PRNG-chosen statements of
// context.go / future.go / system.go (vinstr yield points, inject mode): "everything else runs to quiescence,
// including timers that are due, before this statement executes". Reaches windows that virtual time otherwise
// closes, e.g. a timeout firing between the creation of a future and its registration.
func TestVerif_futuresinject(t *testing.T) {
	R := verifrt.NewReport("futuresinject", "inject tier of: "+vfFutRule+" | each case additionally sleeps 1 virtual ns at 1-2 PRNG-chosen (yield point, n-th hit) pairs among the statements of internal/actor/context.go, system.go and internal/future/future.go that the scenario executes")
	defer R.Flush()
	n := verifrt.EnvInt("VERIF_N", 1500)
	if verifrt.Thorough() {
		n = 60000
	}
	only := verifrt.EnvInt("VERIF_CASE", -1)
	// warm-up in count mode: which sites does this kind of scenario reach?
	siteSet := map[string]bool{}
	for k := 0; k < 6; k++ {
		rng := verifrt.NewRand(verifrt.CaseSeed("futures-warm", k))
		na, nr, asks, kills := vfGenFutures(rng)
		res := &vfCellResult{}
		c := verifrt.Begin(verifrt.ModeCount, 1, 0)
		vfBubble(t, 90*time.Second, func() { vfRunFutures(na, nr, asks, kills, res) })
		verifrt.End()
		for s := range c.Sites() {
			if strings.Contains(s, ".ask#") || strings.Contains(s, "future.") || strings.Contains(s, "Future") || strings.Contains(s, ".doKill#") || strings.Contains(s, "removeFuture") || strings.Contains(s, "appendFuture") || strings.Contains(s, ".PipeTo#") || strings.Contains(s, ".close#") || strings.Contains(s, ".tellForwarders#") {
				siteSet[s] = true
			}
		}
	}
	sites := verifrt.SortedKeys(siteSet)
	var sweepSites []string
	for _, st := range sites {
		if strings.Contains(st, "removeFuture") || strings.Contains(st, ".doKill#") {
			sweepSites = append(sweepSites, st)
		}
	}
	R.ObsMax("max:candidate_sites", int64(len(sites)))
	R.ObsMax("max:sweep_sites", int64(len(sweepSites)))
	if len(sites) == 0 {
		R.Inconcl("no instrumented site reached (vinstr overlay missing?)")
		return
	}
	var injected int64
	for ci := 0; ci < n; ci++ {
		if !verifrt.Mine(ci) || (only >= 0 && only != ci) {
			continue
		}
		rng := verifrt.NewRand(verifrt.CaseSeed("futuresinject", ci))
		na, nr, asks, kills := vfGenFutures(rng)
		if len(asks) > 12 {
			asks = asks[:12]
		}
		plan := map[string]int64{}
		for k := 1 + rng.Intn(2); k > 0; k-- {
			plan[sites[rng.Intn(len(sites))]] = int64(1 + rng.Intn(3))
		}
		if len(kills) > 0 && len(sweepSites) > 0 && rng.Chance(60) {
			// a maximal delay inside the kill's sweep over the asker's futures / a future's self-removal
			plan = map[string]int64{sweepSites[rng.Intn(len(sweepSites))]: int64(1 + rng.Intn(4))}
		}
		var ps []string
		for _, a := range asks {
			ps = append(ps, a.String())
		}
		for k, t := range kills {
			ps = append(ps, fmt.Sprintf("kill k%d @%v", k, t))
		}
		desc := fmt.Sprintf("inject=%v | %s", plan, strings.Join(ps, " ; "))
		R.Journal(ci, desc)
		res := &vfCellResult{}
		vfFutTol = 20 * time.Nanosecond
		c := verifrt.BeginInject(plan, 0)
		hang, stacks, pan := vfBubble(t, 90*time.Second, func() { vfRunFutures(na, nr, asks, kills, res) })
		verifrt.End()
		vfFutTol = 0
		R.Eval()
		injected += int64(c.Injected())
		viols := res.viols
		if hang {
			viols = append(viols, vfViol{"c04-hang", "bubble", verifrt.Short(stacks, 40000)})
		}
		if pan != nil {
			ps := fmt.Sprint(pan)
			kind := "c04-goroutines-left"
			if !strings.Contains(ps, "deadlock") && !strings.Contains(ps, "blocked") {
				kind = "harness-panic"
			}
			viols = append(viols, vfViol{kind, "bubble", verifrt.Short(ps, 3000)})
		}
		if c.Injected() > 0 && res.sig != "" {
			R.Nontrivial(desc)
		}
		seen := map[string]bool{}
		for _, v := range viols {
			if seen[v.Kind+v.Key] {
				continue
			}
			seen[v.Kind+v.Key] = true
			R.Violate(ci, v.Kind, v.Key, v.Detail+" | scenario: "+verifrt.Short(desc, 2500), map[string]any{"scenario": desc})
		}
		if ci < 2 {
			R.Sample(map[string]any{"scenario": verifrt.Short(desc, 900), "outcomes": res.sig, "delays_injected": c.Injected()})
		}
		if hang {
			R.Flush()
			t.Fatalf("hang")
		}
	}
	R.Obs("delays_injected", injected)
}
