//go:build verif

package actor

import (
	"fmt"
	"github.com/kercylan98/vivid"
	"runtime"
	"strings"
	"testing"
	"time"

	"github.com/kercylan98/vivid/internal/verifrt"
)

// C05 launch window (DESIGN §3 D23): "OnLaunch is the first message of every incarnation" against a sender that addresses
// the new actor by its (predictable) path while ActorOf is still running. One statement of Context.ActorOf (vinstr yield
// point) is given a maximal delay: it sleeps 1 virtual ns, i.e. everything else runs to quiescence inside that window.
// An early sender goroutine spins (no virtual time passes while it runs) until the path is registered and then Tells
// through a ref built from address + path.

type vfLWCase struct {
	Site     string
	Top      bool   // spawned by System.ActorOf (child of the root) or by an actor's ctx.ActorOf
	Sends    int    // user messages from the early sender (same goroutine: their order must be kept)
	Early    string // what else the early sender does first: "" | kill (system message) | poison (user message) | watch
	FailMode int    // 0: OnLaunch succeeds; 1: it panics, parent decides Resume; 2: Restart; 3: Stop
}

func (c vfLWCase) String() string {
	return fmt.Sprintf("delay@%s top=%v early-sends=%d early-op=%q launch=%s", c.Site, c.Top, c.Sends, c.Early, [...]string{"ok", "panics/Resume", "panics/Restart", "panics/Stop"}[c.FailMode])
}

func vfRunLW(c vfLWCase, res *vfCellResult) (early int, injected int) {
	w := newVfWorld()
	res.w = w
	if err := w.start(); err != nil {
		res.viols = append(res.viols, vfViol{"harness-start", "Start", err.Error()})
		return
	}
	parentPath := ""
	child := &vfSpec{Name: "w"}
	parent := &vfSpec{Name: "P"}
	if c.FailMode > 0 {
		child.FailLaunchInc = 1
		parent.Strategy = 1
		parent.Decisions = []vivid.SupervisionDecision{[...]vivid.SupervisionDecision{vivid.SupervisionDecisionResume, vivid.SupervisionDecisionResume, vivid.SupervisionDecisionRestart, vivid.SupervisionDecisionStop}[c.FailMode]}
	}
	if !c.Top {
		if _, err := w.spawnTop(parent); err != nil {
			res.viols = append(res.viols, vfViol{"harness-spawn", "P", err.Error()})
			return
		}
		w.wait()
		parentPath = w.ref("P").GetPath()
	}
	if c.Early == "watch" {
		if _, err := w.spawnTop(&vfSpec{Name: "X"}); err != nil {
			res.viols = append(res.viols, vfViol{"harness-spawn", "X", err.Error()})
			return
		}
		w.wait()
	}
	path := parentPath + "/w"
	ref, _ := NewRef(w.sys.Ref().GetAddress(), path)
	done := make(chan int, 1)
	go func() {
		// spin until the path is registered (bounded), then send
		n := 0
		for i := 0; i < 200000 && w.ctxOf(path) == nil; i++ {
			runtime.Gosched()
		}
		if w.ctxOf(path) != nil {
			switch c.Early {
			case "kill":
				w.sys.Kill(ref, false, "vf-early")
			case "poison":
				w.sys.Kill(ref, true, "vf-early")
			case "watch":
				w.tellName("X", &vfCmd{Op: "watchref", Arg: ref})
				for i := 0; i < 2000; i++ { // let X handle it (no virtual time passes)
					runtime.Gosched()
				}
			}
			for k := 0; k < c.Sends; k++ {
				w.tell(ref, "parsed", &vfCmd{Op: "noop"})
				n++
			}
		}
		done <- n
	}()
	plan := map[string]int64{}
	if c.Site != "" {
		plan[c.Site] = 1
	}
	ctl := verifrt.BeginInject(plan, 0)
	if c.Top {
		_, _ = w.spawnTop(child)
	} else {
		w.tellName("P", &vfCmd{Op: "spawn", Arg: child})
	}
	w.wait()
	select {
	case early = <-done:
	case <-time.After(time.Second):
	}
	verifrt.End()
	injected = ctl.Injected()
	w.settle(10 * time.Millisecond)
	// a later ordinary message, then stop
	if r := w.ref("w"); r != nil {
		w.tell(r, "actorof", &vfCmd{Op: "noop"})
	}
	w.settle(10 * time.Millisecond)
	if c.Early == "watch" {
		if r := w.ref("w"); r != nil {
			w.sys.Kill(r, false, "vf-late")
		}
		w.settle(10 * time.Millisecond)
	}
	if err := w.stop(); err != nil {
		res.viols = append(res.viols, vfViol{"c07-stop-error", "Stop", err.Error()})
	}
	w.settle(time.Second)
	// the early sender's user messages were sent from one goroutine: the actor must handle them in that order
	last := 0
	for _, e := range w.snapshot() {
		if e.Kind == "recv" && e.Path == path && e.Msg == "U" {
			w.mu.Lock()
			snt := w.sent[e.ID]
			w.mu.Unlock()
			if snt != nil && snt.Via == "parsed" {
				if e.ID < last {
					res.viols = append(res.viols, vfViol{"order-per-sender", "launch window", fmt.Sprintf("%s handled the early sender's message #%d after #%d (sent in the opposite order by one goroutine)", path, e.ID, last)})
				}
				last = e.ID
			}
		}
	}
	res.viols = append(res.viols, w.oracleOverlap()...)
	res.viols = append(res.viols, w.oracleLedger(nil)...)
	res.viols = append(res.viols, w.oracleLifecycle()...)
	res.viols = append(res.viols, w.oracleUnpaused()...)
	res.viols = append(res.viols, w.oracleWatchers()...)
	res.viols = append(res.viols, w.oracleTree()...)
	res.trace = w.traceOf()
	return
}

func TestVerif_launchwindow(t *testing.T) {
	R := verifrt.NewReport("launchwindow", "inject tier for 'OnLaunch is the first message of every incarnation': for every yield point (vinstr) of Context.ActorOf x {System.ActorOf, ctx.ActorOf from a handler} x {1, 3 early messages}: that statement sleeps 1 virtual ns (everything else runs to quiescence inside the window) while a sender goroutine spins until the new actor's path is registered and then Tells through a ref built from address + path; lifecycle automaton, conservation ledger and overlap monitor over the recorded trace. non-trivial+distinct = cases in which the delay was injected and the early sender got its messages in before ActorOf returned")
	defer R.Flush()
	// warm-up: discover the yield points of ActorOf
	siteSet := map[string]bool{}
	c := verifrt.Begin(verifrt.ModeCount, 1, 0)
	vfBubble(t, 60*time.Second, func() { vfRunLW(vfLWCase{Top: false, Sends: 1}, &vfCellResult{}) })
	verifrt.End()
	for s := range c.Sites() {
		if strings.HasPrefix(s, "context.ActorOf#") {
			siteSet[s] = true
		}
	}
	sites := verifrt.SortedKeys(siteSet)
	R.ObsMax("max:candidate_sites", int64(len(sites)))
	if len(sites) == 0 {
		R.Inconcl("no instrumented site of Context.ActorOf reached")
		return
	}
	var cases []vfLWCase
	reps := 1
	if verifrt.Thorough() {
		reps = 20
	}
	for r := 0; r < reps; r++ {
		for _, s := range sites {
			for _, top := range []bool{false, true} {
				for _, n := range []int{1, 3} {
					cases = append(cases, vfLWCase{Site: s, Top: top, Sends: n})
				}
				for _, early := range []string{"kill", "poison", "watch"} {
					cases = append(cases, vfLWCase{Site: s, Top: top, Sends: 2, Early: early})
				}
			}
			// OnLaunch fails while early mail is waiting: it must follow the supervisor's decision like any queued mail
			for fm := 1; fm <= 3; fm++ {
				cases = append(cases, vfLWCase{Site: s, Top: false, Sends: 3, FailMode: fm})
				cases = append(cases, vfLWCase{Site: s, Top: false, Sends: 2, Early: "kill", FailMode: fm})
			}
		}
	}
	only := verifrt.EnvInt("VERIF_CASE", -1)
	for ci, cs := range cases {
		if !verifrt.Mine(ci) || (only >= 0 && only != ci) {
			continue
		}
		R.Journal(ci, cs.String())
		res := &vfCellResult{}
		early, injected := 0, 0
		hang, stacks, pan := vfBubble(t, 60*time.Second, func() { early, injected = vfRunLW(cs, res) })
		R.Eval()
		viols := res.viols
		if hang {
			viols = append(viols, vfViol{"c09-hang", "bubble", verifrt.Short(stacks, 6000)})
		}
		if pan != nil {
			viols = append(viols, vfViol{"harness-panic", "bubble", verifrt.Short(fmt.Sprint(pan), 2000)})
		}
		if injected > 0 && early > 0 {
			R.Nontrivial(fmt.Sprintf("%s|%d", cs, ci))
		}
		R.Obs("delays_injected", int64(injected))
		R.Obs("early_messages", int64(early))
		seen := map[string]bool{}
		for _, v := range viols {
			if v.Kind == "c05-message-before-onlaunch" {
				// the automaton then also counts the late OnLaunch as a second one: a consequence, not another finding
				seen["c05-second-onlaunch-in-incarnation"] = true
			}
		}
		for _, v := range viols {
			if seen[v.Kind] {
				continue
			}
			seen[v.Kind] = true
			key := v.Key
			if v.Kind == "c05-message-before-onlaunch" {
				key = "ActorOf register→OnLaunch window"
			}
			R.Violate(ci, v.Kind, key, v.Detail+" | case: "+cs.String()+" | trace: "+verifrt.Short(res.trace, 2000), map[string]any{"case": cs.String()})
		}
		if ci%7 == 0 {
			R.Sample(map[string]any{"case": cs.String(), "early_messages": early, "trace": verifrt.Short(res.trace, 600)})
		}
	}
}
