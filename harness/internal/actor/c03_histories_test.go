//go:build verif

package actor

import (
	"fmt"
	"sort"
	"strings"
	"sync"
	"sync/atomic"
	"testing"
	"time"

	"github.com/kercylan98/vivid"
	"github.com/kercylan98/vivid/internal/verifrt"
)

// PRNG histories over small actor trees (DESIGN §4 C03/C05/C06/C09): spawn, tell (four ways of obtaining the
// reference), kill (poison or not), failures under random strategies/decisions, restart hooks, stash scripts,
// watchers, sends racing transitions from several goroutines at one virtual instant. Only generic monitors
// (no per-history reference model): ledger, lifecycle automaton, kill order / exactly-once notices / release,
// paused-at-quiescence, probes, tree consistency, overlap.

type vfHStep struct {
	Kind   string // tell | kill | spawn | watch | unwatch | ghost | burst
	Target string
	Op     string
	Arg    any
	Via    string
	Poison bool
	Sub    []vfHStep // burst: issued from separate goroutines at the same instant
}

func (s vfHStep) String() string {
	switch s.Kind {
	case "tell":
		return fmt.Sprintf("tell(%s,%s,via=%s)", s.Target, s.Op, s.Via)
	case "kill":
		return fmt.Sprintf("kill(%s,poison=%v,via=%s)", s.Target, s.Poison, s.Via)
	case "spawn":
		return fmt.Sprintf("spawn(%s under %s)", s.Arg.(*vfSpec).Name, s.Target)
	case "watch", "unwatch":
		return fmt.Sprintf("%s(%s by %s)", s.Kind, s.Arg, s.Target)
	case "ghost":
		return fmt.Sprintf("tell-nonexistent(%s)", s.Target)
	case "burst":
		var p []string
		for _, x := range s.Sub {
			p = append(p, x.String())
		}
		return "race{" + strings.Join(p, " || ") + "}"
	}
	return s.Kind
}

type vfHistory struct {
	Tops  []*vfSpec
	Names []string
	Steps []vfHStep
}

func vfDescribeSpec(s *vfSpec, depth int) string {
	d := fmt.Sprintf("%s[", s.Name)
	if s.Strategy != vfStratNone {
		var ds []string
		for _, x := range s.Decisions {
			ds = append(ds, x.String())
		}
		d += vfStratName(s.Strategy) + ":" + strings.Join(ds, ",") + " "
	}
	if s.Provider {
		d += "provider "
	}
	if len(s.HookFail) > 0 {
		d += fmt.Sprintf("hookfail=%v ", s.HookFail)
	}
	if s.Loop > 0 {
		d += "loop "
	}
	if s.SpawnOnKill {
		d += "spawn-on-kill "
	}
	if s.SpawnOnChildDead {
		d += "spawn-on-child-dead "
	}
	if len(s.Subs) > 0 {
		d += "subs "
	}
	d = strings.TrimSpace(d) + "]"
	if len(s.Children) > 0 {
		var cs []string
		for _, c := range s.Children {
			cs = append(cs, vfDescribeSpec(c, depth+1))
		}
		d += "{" + strings.Join(cs, " ") + "}"
	}
	return d
}

func vfGenHistory(rng *verifrt.Rand, emph string) *vfHistory {
	h := &vfHistory{}
	n := 2 + rng.Intn(6)
	if emph == "kill" {
		n = 4 + rng.Intn(17)
	}
	var specs []*vfSpec
	depth := map[*vfSpec]int{}
	decPool := vfAllDecisions
	for i := 0; i < n; i++ {
		s := &vfSpec{Name: fmt.Sprintf("n%d", i)}
		stratPct := 55
		if emph == "kill" {
			stratPct = 20
		}
		if rng.Chance(stratPct) {
			s.Strategy = 1 + rng.Intn(2)
			for k := 0; k < 3; k++ {
				d := decPool[rng.Intn(len(decPool))]
				if d.IsEscalate() && rng.Chance(50) {
					d = decPool[rng.Intn(5)]
				}
				if emph == "life" && rng.Chance(50) {
					d = decPool[rng.Intn(2)] // restarts dominate
				}
				s.Decisions = append(s.Decisions, d)
			}
		}
		s.Provider = rng.Chance(30)
		if emph == "life" {
			s.Provider = rng.Chance(60)
		}
		if rng.Chance(12) {
			hooks := []string{"prerestart", "restarted", "prelaunch"}
			s.HookFail = map[string]int{hooks[rng.Intn(3)]: 1 + rng.Intn(2)}
		}
		if rng.Chance(30) || emph == "kill" {
			s.Loop = 200 * time.Millisecond
			if rng.Chance(60) {
				s.Once = time.Millisecond // fired one-shot entries sit next to the live Loop job when the owner dies
			}
		}
		if rng.Chance(30) || emph == "kill" {
			s.Subs = []int{rng.Intn(2)}
			if rng.Chance(40) {
				extra := 2 + rng.Intn(3)
				s.Subs = append(s.Subs, extra)
				s.UnsubAtLaunch = []int{extra}
			}
		}
		if rng.Chance(15) || (emph == "life" && rng.Chance(40)) {
			s.BecomeAt = 1 + rng.Intn(3)
		}
		if rng.Chance(12) {
			s.SpawnOnKill = true
		}
		if rng.Chance(8) {
			s.SpawnOnChildDead = true
		}
		if emph == "life" && rng.Chance(15) {
			s.FailLaunchInc = 2 // the second incarnation fails in OnLaunch again
			s.FailMode = rng.Intn(2)
		}
		if i == 0 || rng.Chance(20) {
			h.Tops = append(h.Tops, s)
			depth[s] = 1
		} else {
			var p *vfSpec
			for try := 0; try < 20; try++ {
				c := specs[rng.Intn(len(specs))]
				if depth[c] < 4 && len(c.Children) < 3 {
					p = c
					break
				}
			}
			if p == nil {
				h.Tops = append(h.Tops, s)
				depth[s] = 1
			} else {
				p.Children = append(p.Children, s)
				depth[s] = depth[p] + 1
			}
		}
		specs = append(specs, s)
		h.Names = append(h.Names, s.Name)
	}
	vias := []string{"actorof", "actorof", "clone", "parse", "find"}
	ops := []string{"noop", "noop", "noop", "noop", "noop", "panic", "failed", "stash", "unstash", "unstashn", "become", "unbecome"}
	if emph == "life" {
		ops = []string{"noop", "noop", "panic", "panic", "failed", "failed", "become", "unbecome", "stash", "unstash"}
	}
	// step-kind thresholds: tell, kill, spawn, watch, unwatch, ghost, (rest: burst)
	th := []int{55, 70, 78, 84, 87, 90}
	if emph == "kill" {
		th = []int{12, 45, 60, 78, 82, 84}
	}
	if emph == "life" {
		th = []int{65, 73, 83, 85, 86, 88}
	}
	spawned := 0
	hot := h.Names[rng.Intn(len(h.Names))] // a favourite target, so that sequences concentrate on one actor
	var one func(depth int) vfHStep
	one = func(depth int) vfHStep {
		tgt := h.Names[rng.Intn(len(h.Names))]
		if rng.Chance(35) {
			tgt = hot
		}
		r := rng.Intn(100)
		switch {
		case r < th[0]:
			op := ops[rng.Intn(len(ops))]
			st := vfHStep{Kind: "tell", Target: tgt, Op: op, Via: vias[rng.Intn(len(vias))]}
			if op == "unstashn" {
				st.Arg = rng.Intn(4)
			}
			return st
		case r < th[1]:
			return vfHStep{Kind: "kill", Target: tgt, Poison: rng.Bool(), Via: vias[rng.Intn(len(vias))]}
		case r < th[2]:
			spawned++
			name := fmt.Sprintf("s%d", spawned)
			if rng.Chance(25) { // reuse a name that may be alive or dead
				name = h.Names[rng.Intn(len(h.Names))]
			} else {
				h.Names = append(h.Names, name)
			}
			sp := &vfSpec{Name: name, Loop: time.Duration(rng.Intn(2)) * 200 * time.Millisecond, Subs: []int{1}}
			if emph == "life" && rng.Chance(30) {
				sp.PrelaunchFailFirst = true // ActorOf must return an error and the instance must never receive anything
			}
			return vfHStep{Kind: "spawn", Target: tgt, Arg: sp}
		case r < th[3]:
			return vfHStep{Kind: "watch", Target: tgt, Arg: h.Names[rng.Intn(len(h.Names))]}
		case r < th[4]:
			return vfHStep{Kind: "unwatch", Target: tgt, Arg: h.Names[rng.Intn(len(h.Names))]}
		case r < th[5]:
			return vfHStep{Kind: "ghost", Target: fmt.Sprintf("/never/%d", rng.Intn(3))}
		default:
			if depth > 0 {
				return vfHStep{Kind: "tell", Target: tgt, Op: "noop", Via: "actorof"}
			}
			b := vfHStep{Kind: "burst"}
			if emph == "kill" && rng.Chance(60) {
				// aimed races: several killers on one victim, kill racing a spawn inside the victim, watch racing the kill
				victim := tgt
				for k := 1 + rng.Intn(3); k > 0; k-- {
					b.Sub = append(b.Sub, vfHStep{Kind: "kill", Target: victim, Poison: rng.Bool(), Via: vias[rng.Intn(len(vias))]})
				}
				if rng.Bool() {
					spawned++
					nm := fmt.Sprintf("s%d", spawned)
					h.Names = append(h.Names, nm)
					b.Sub = append(b.Sub, vfHStep{Kind: "spawn", Target: victim, Arg: &vfSpec{Name: nm, Loop: 200 * time.Millisecond, Subs: []int{0}}})
				}
				if rng.Bool() {
					b.Sub = append(b.Sub, vfHStep{Kind: "watch", Target: h.Names[rng.Intn(len(h.Names))], Arg: victim})
				}
				return b
			}
			for k := 2 + rng.Intn(3); k > 0; k-- {
				b.Sub = append(b.Sub, one(1))
			}
			return b
		}
	}
	steps := 4 + rng.Intn(14)
	for i := 0; i < steps; i++ {
		h.Steps = append(h.Steps, one(0))
	}
	return h
}

func (h *vfHistory) String() string {
	var t []string
	for _, s := range h.Tops {
		t = append(t, vfDescribeSpec(s, 0))
	}
	var st []string
	for _, s := range h.Steps {
		st = append(st, s.String())
	}
	return "tree: " + strings.Join(t, " ") + " ; steps: " + strings.Join(st, " ; ")
}

// refVia obtains a reference to the named actor in one of the four ways.
func (w *vfWorld) refVia(name, via string) (vivid.ActorRef, string) {
	r := w.ref(name)
	if r == nil {
		return nil, via
	}
	switch via {
	case "clone":
		return r.Clone(), via
	case "parse":
		if p, err := w.sys.ParseRef(r.String()); err == nil {
			return p, via
		}
	case "find":
		if p, err := w.sys.FindActor(r.String()); err == nil {
			return p, via
		}
		if p, err := w.sys.ParseRef(r.String()); err == nil {
			return p, "parse"
		}
	}
	return r, "actorof"
}

func (w *vfWorld) doStep(s vfHStep) {
	switch s.Kind {
	case "tell":
		r, via := w.refVia(s.Target, s.Via)
		if r == nil {
			return
		}
		cmd := &vfCmd{ID: w.newID(), Op: s.Op, Arg: s.Arg}
		w.tell(r, via, cmd)
	case "kill":
		r, _ := w.refVia(s.Target, s.Via)
		if r == nil {
			return
		}
		w.add(vfEv{Kind: "api", Path: r.GetPath(), Msg: "kill", ID: -1})
		w.sys.Kill(r, s.Poison, "vf-hist")
	case "spawn":
		r := w.ref(s.Target)
		if r == nil {
			return
		}
		w.tell(r, "actorof", &vfCmd{ID: w.newID(), Op: "spawn", Arg: s.Arg})
	case "watch", "unwatch":
		r := w.ref(s.Target)
		if r == nil {
			return
		}
		w.tell(r, "actorof", &vfCmd{ID: w.newID(), Op: s.Kind, Arg: s.Arg})
	case "ghost":
		if r, err := w.sys.ParseRef(w.sys.Ref().GetAddress() + s.Target); err == nil {
			w.tell(r, "never-existed", &vfCmd{ID: w.newID(), Op: "noop"})
		}
	case "burst":
		var wg sync.WaitGroup
		for _, x := range s.Sub {
			wg.Add(1)
			go func(x vfHStep) {
				defer wg.Done()
				w.doStep(x)
			}(x)
		}
		wg.Wait()
	}
}

func (w *vfWorld) noteZombies(z map[string]bool) {
	acts, _ := w.registry()
	for p, c := range acts {
		if c.zombie {
			z[p] = true
		}
	}
}

func vfRunHistory(h *vfHistory, res *vfCellResult) {
	w := newVfWorld()
	res.w = w
	add := func(kind, key, f string, a ...any) {
		res.viols = append(res.viols, vfViol{kind, key, fmt.Sprintf(f, a...)})
	}
	if err := w.start(); err != nil {
		add("harness-error", "start", "%v", err)
		return
	}
	for _, s := range h.Tops {
		if _, err := w.spawnTop(s); err != nil {
			add("harness-error", "spawn", "%v", err)
			return
		}
	}
	holdRef, _ := w.spawnTop(&vfSpec{Name: "zhold", LateObserver: true})
	w.wait()
	zombies := map[string]bool{}
	for _, s := range h.Steps {
		w.doStep(s)
		w.wait()
		w.noteZombies(zombies)
		time.Sleep(10 * time.Millisecond)
	}
	w.settle(time.Second)
	w.noteZombies(zombies)
	res.trace = w.traceOf()
	res.viols = append(res.viols, w.oracleUnpaused()...)

	// probes to every name ever used, through its latest reference
	w.mu.Lock()
	names := make([]string, 0, len(w.refs))
	for n := range w.refs {
		names = append(names, n)
	}
	w.mu.Unlock()
	sort.Strings(names)
	acts, futs := w.registry()
	if len(futs) > 0 {
		add("c04-registration-leak", "histories", "future registrations left: %v", futs)
	}
	type probe struct {
		id    int
		path  string
		alive bool
	}
	var probes []probe
	for _, n := range names {
		r := w.ref(n)
		_, alive := acts[r.GetPath()]
		cmd := &vfCmd{ID: w.newID(), Op: "probe"}
		probes = append(probes, probe{cmd.ID, r.GetPath(), alive})
		w.tell(r, "actorof", cmd)
	}
	w.settle(time.Second)
	log := w.snapshot()
	for _, p := range probes {
		if w.wasZombie(p.path, zombies) {
			continue
		}
		proc, dl := 0, 0
		for _, e := range log {
			if e.ID == p.id && e.Kind == "recv" && e.Msg == "U" {
				proc++
			}
			if e.ID == p.id && e.Kind == "obs" && e.Msg == "dl:U" {
				dl++
			}
		}
		if p.alive && (proc != 1 || dl != 0) {
			add("c09-survivor-does-not-process", "probe", "%s is registered and not a zombie at quiescence, but a probe sent afterwards was processed %d times, dead-lettered %d times", p.path, proc, dl)
		}
		if !p.alive && (proc != 0 || dl != 1) {
			add("c09-dead-actor-probe", "probe", "%s is not registered at quiescence, a probe sent afterwards was processed %d times, dead-lettered %d times (want 0/1)", p.path, proc, dl)
		}
	}
	// release of terminated paths + jobs silent after death
	var deadPaths []string
	lastKilled := map[string]int64{}
	lastSpawn := map[string]int64{}
	for _, e := range log {
		if e.Kind == "obs" && e.Msg == "killed" {
			lastKilled[e.Path] = e.T
		}
		if e.Kind == "obs" && e.Msg == "spawned" {
			lastSpawn[e.Path] = e.T
		}
	}
	acts, _ = w.registry()
	for p, tk := range lastKilled {
		if tk > lastSpawn[p] {
			deadPaths = append(deadPaths, p)
		}
	}
	sort.Strings(deadPaths)
	res.viols = append(res.viols, w.oracleReleased(deadPaths)...)
	mark := w.clock.Load()
	time.Sleep(700 * time.Millisecond) // > 3 loop intervals
	w.wait()
	for _, e := range w.snapshot() {
		if e.T <= mark {
			continue
		}
		for _, p := range deadPaths {
			if e.Path == p && ((e.Kind == "recv" && e.Msg == "SC") || (e.Kind == "obs" && strings.HasPrefix(e.Msg, "dl:SC"))) {
				add("c06-job-survives-owner", "scheduler", "scheduled message for terminated actor %s still fired (%s) %s after its termination", p, e.Msg, e.Now)
			}
		}
	}
	// same-name reuse: the parent of a dead path can spawn it again
	for _, p := range deadPaths {
		parent := p[:strings.LastIndex(p, "/")]
		if parent == "" {
			continue
		}
		if pc, ok := acts[parent]; !ok || zombies[parent] || atomic.LoadInt32(&pc.state) != running {
			continue
		}
		nm := vfLast(p)
		before := len(w.snapshot())
		_ = before
		w.mu.Lock()
		var pref vivid.ActorRef
		for _, r := range w.refs {
			if r.GetPath() == parent {
				pref = r
			}
		}
		w.mu.Unlock()
		if pref == nil {
			continue
		}
		w.tell(pref, "actorof", &vfCmd{ID: w.newID(), Op: "spawn", Arg: &vfSpec{Name: nm}})
		w.settle(50 * time.Millisecond)
		a2, _ := w.registry()
		if _, ok := a2[p]; !ok {
			w.mu.Lock()
			errs := strings.Join(w.spawnErr, "; ")
			w.mu.Unlock()
			add("c06-name-not-reusable", "ActorOf", "after %s terminated its live parent could not spawn the same name again (%s)", p, errs)
		}
		break // one reuse probe per history is enough
	}
	res.viols = append(res.viols, w.oracleOverlap()...)
	res.viols = append(res.viols, w.oracleLedger(zombies)...)
	res.viols = append(res.viols, w.oracleLifecycle()...)
	res.viols = append(res.viols, w.oracleKillOrder()...)
	res.viols = append(res.viols, w.oracleWatchers()...)
	res.viols = append(res.viols, w.oracleTree()...)
	res.trace = w.traceOf()
	// signature: event-kind histogram
	hist := map[string]int{}
	for _, e := range w.snapshot() {
		if e.Kind == "obs" {
			hist[strings.SplitN(e.Msg, ":", 2)[0]]++
		}
	}
	var sb strings.Builder
	for _, k := range verifrt.SortedKeys(hist) {
		fmt.Fprintf(&sb, "%s=%d,", k, hist[k])
	}
	res.sig = sb.String()
	// ---- stopping phase (C03): sends that race System.Stop. "zhold" is held inside a handler, so the root stays in
	// the killing state and the late observer under zhold stays alive and subscribed; every user message sent now
	// must still end processed or dead-lettered exactly once, whatever way its reference was obtained.
	if holdRef != nil {
		gate := newVfGate()
		w.sys.Tell(holdRef, &vfCmd{ID: w.newID(), Op: "gate", Arg: gate})
		<-gate.entered
		stopErr := make(chan error, 1)
		go func() { stopErr <- w.sys.Stop() }()
		w.wait()
		w.stopping.Store(true)
		type sp struct {
			id        int
			via, path string
		}
		var sps []sp
		vias := []string{"actorof", "clone", "parse"}
		for i, n := range names {
			if n == "zhold" || strings.HasPrefix(n, "first:") {
				continue
			}
			r, via := w.refVia(n, vias[i%3])
			if r == nil {
				continue
			}
			id := w.newID()
			sps = append(sps, sp{id, via, r.GetPath()})
			w.sys.Tell(r, &vfCmd{ID: id, Op: "noop"})
		}
		if g, err := w.sys.ParseRef(w.sys.Ref().GetAddress() + "/never/stopping"); err == nil {
			id := w.newID()
			sps = append(sps, sp{id, "never-existed", g.GetPath()})
			w.sys.Tell(g, &vfCmd{ID: id, Op: "noop"})
		}
		w.wait()
		lg := w.snapshot()
		for _, x := range sps {
			if w.wasZombie(x.path, zombies) {
				continue
			}
			proc, dl := 0, 0
			for _, e := range lg {
				if e.ID == x.id && e.Kind == "recv" && e.Msg == "U" {
					proc++
				}
				if e.ID == x.id && e.Kind == "obs2" && e.Msg == "dl2:U" {
					dl++
				}
			}
			if proc+dl != 1 {
				add("c03-message-lost-while-stopping", "via="+x.via, "message #%d sent to %s (ref via %s) while System.Stop was in progress (root in killing state, a dead-letter subscriber still alive): processed %d times, dead-lettered %d times, want exactly one fate", x.id, x.path, x.via, proc, dl)
			}
		}
		close(gate.release)
		err := <-stopErr
		w.stopped.Store(true)
		w.wait()
		if err != nil {
			add("c07-stop-error", "histories", "Stop returned %v", err)
		}
		return
	}
	if err := w.stop(); err != nil {
		add("c07-stop-error", "histories", "Stop returned %v", err)
	}
}

func vfRunHistories(t *testing.T, R *verifrt.Report, check, emph string, n int) {
	only := verifrt.EnvInt("VERIF_CASE", -1)
	for ci := 0; ci < n; ci++ {
		if !verifrt.Mine(ci) || (only >= 0 && only != ci) {
			continue
		}
		rng := verifrt.NewRand(verifrt.CaseSeed(check, ci))
		h := vfGenHistory(rng, emph)
		hs := h.String()
		R.Journal(ci, hs)
		res := &vfCellResult{}
		hang, stacks, pan := vfBubble(t, 60*time.Second, func() { vfRunHistory(h, res) })
		R.Eval()
		viols := res.viols
		if hang {
			tr := ""
			if res.w != nil {
				tr = res.w.traceOf()
				if len(tr) > 3000 {
					tr = tr[:1500] + " …… " + tr[len(tr)-1500:]
				}
			}
			viols = append(viols, vfViol{"c09-hang", "bubble", "history did not finish within 60 s real time (normal: ms); trace so far: " + tr + "\n" + verifrt.Short(stacks, 6000)})
		}
		if pan != nil {
			ps := fmt.Sprint(pan)
			kind := "c07-goroutines-left-after-stop"
			if !strings.Contains(ps, "deadlock") && !strings.Contains(ps, "blocked") {
				kind = "harness-panic"
			}
			viols = append(viols, vfViol{kind, "bubble", verifrt.Short(ps, 3000)})
		}
		if strings.Contains(res.sig, "failed=") || strings.Contains(res.sig, "killed=") {
			R.Nontrivial(res.sig + fmt.Sprint(len(h.Steps)))
		}
		for _, part := range strings.Split(res.sig, ",") {
			if kv := strings.SplitN(part, "=", 2); len(kv) == 2 {
				var x int64
				fmt.Sscan(kv[1], &x)
				R.Obs("events_"+kv[0], x)
			}
		}
		seen := map[string]bool{}
		for _, v := range viols {
			k := v.Kind + "|" + v.Key
			if seen[k] {
				continue
			}
			seen[k] = true
			R.Violate(ci, v.Kind, v.Key, v.Detail+" | history: "+verifrt.Short(hs, 1800)+" | trace: "+verifrt.Short(res.trace, 2500), map[string]any{"history": hs})
		}
		if hang {
			R.Flush()
			t.Fatalf("hang in history %d", ci)
		}
		if ci < 2 {
			R.Sample(map[string]any{"history": verifrt.Short(hs, 1200), "observed": res.sig, "trace": verifrt.Short(res.trace, 700)})
		}
	}
}

const vfHistRule = "quiescence (synctest.Wait) after each step; then paused/state invariant, probes through the latest refs, release checks (registry, FindActor, event-stream tables), 3 loop intervals of silence for dead owners, same-name reuse, conservation ledger, lifecycle automaton, kill-order / exactly-once notices, watcher notices, tree consistency, handler overlap. non-trivial+distinct = distinct histories (by observed event histogram + length) in which at least one failure or kill was observed"

func TestVerif_histories(t *testing.T) {
	R := verifrt.NewReport("histories", "PRNG histories: tree of 2-7 recording actors (random strategies, 3-decision lists, providers, failing restart hooks, Loop jobs, subscriptions, Become points), 4-17 steps from {tell x 12 ops x 4 ways of obtaining the ref, kill poison/immediate, spawn incl. name reuse, watch, unwatch, tell to never-existing path, race of 2-4 of these from separate goroutines at one virtual instant}; "+vfHistRule)
	defer R.Flush()
	n := verifrt.EnvInt("VERIF_N", 20000)
	if verifrt.Thorough() {
		n = 600000
	}
	vfRunHistories(t, R, "histories", "", n)
}

func TestVerif_killtree(t *testing.T) {
	R := verifrt.NewReport("killtree", "PRNG kill-centred histories: trees of 4-20 actors (depth <= 4, fan-out <= 3), every actor holding a subscription and a Loop job; steps dominated by kill (poison/immediate, any node, 4 ways of obtaining the ref, repeated), watch/unwatch, spawn incl. name reuse, and aimed races at one virtual instant: 1-3 killers on one victim || spawn inside the victim || watch of the victim; "+vfHistRule)
	defer R.Flush()
	n := verifrt.EnvInt("VERIF_N", 10000)
	if verifrt.Thorough() {
		n = 300000
	}
	vfRunHistories(t, R, "killtree", "kill", n)
}

func TestVerif_lifecycle(t *testing.T) {
	R := verifrt.NewReport("lifecycle", "PRNG restart-centred histories: providers (60%), Become points (40%), restart decisions dominate, repeated failures aimed at a favourite actor (panic and Failed), OnLaunch failing again in the 2nd incarnation, children spawned whose Prelaunch refuses the first launch (ActorOf must fail, instance must stay silent); "+vfHistRule)
	defer R.Flush()
	n := verifrt.EnvInt("VERIF_N", 20000)
	if verifrt.Thorough() {
		n = 600000
	}
	vfRunHistories(t, R, "lifecycle", "life", n)
}
