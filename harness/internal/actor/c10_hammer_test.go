//go:build verif

package actor

import (
	"fmt"
	"runtime"
	"sort"
	"strings"
	"sync"
	"sync/atomic"
	"testing"
	"time"

	"github.com/kercylan98/vivid"
	"github.com/kercylan98/vivid/internal/mailbox"
	"github.com/kercylan98/vivid/internal/verifrt"
	"github.com/kercylan98/vivid/pkg/log"
)

// C10 — hammer: the documented-concurrent API from many goroutines while actors spawn, fail and die; deciding
// monitors: race detector (driver parses the GORACE logs), crash sentinel (child process), tree consistency.

type vfHamActor struct {
	depth     int
	decision  vivid.SupervisionDecision
	count     atomic.Int64
	subscribe bool
}

type vfHamMsg struct {
	Op string // noop | spawn | panic | failed | killself | reply | reply2 | ask
	To vivid.ActorRef // ask: whom to ask
}

func (a *vfHamActor) OnReceive(ctx vivid.ActorContext) {
	switch m := ctx.Message().(type) {
	case *vivid.OnLaunch:
		if a.subscribe {
			ctx.EventStream().Subscribe(ctx, vfStreamEv0{})
			ctx.EventStream().Subscribe(ctx, vfStreamEv1{})
		}
	case *vfHamMsg:
		a.count.Add(1)
		switch m.Op {
		case "spawn":
			if a.depth < 3 {
				child := &vfHamActor{depth: a.depth + 1, decision: vfAllDecisions[int(a.count.Load())%5]}
				_, _ = ctx.ActorOf(child, vfHamOptions(child)...)
			}
		case "panic":
			panic("vf-ham")
		case "failed":
			ctx.Failed("vf-ham-failed")
		case "killself":
			ctx.Kill(ctx.Ref(), a.count.Load()%2 == 0, "vf-ham")
		case "ask":
			// the actor itself becomes an asker: its outstanding futures are swept when it dies or restarts, while replies
			// (and timeouts) complete and deregister them from other goroutines
			if m.To != nil {
				op := "reply"
				if a.count.Load()%2 == 0 {
					op = "noop" // never answered: the future stays registered until its timeout fires (on a timer goroutine)
				}
				f := ctx.Ask(m.To, &vfHamMsg{Op: op}, time.Duration(1+a.count.Load()%40)*time.Millisecond)
				if a.count.Load()%3 == 0 {
					_ = f.PipeTo(vivid.ActorRefs{ctx.Ref()})
				}
			}
		case "reply":
			ctx.Reply(&vfHamMsg{Op: "noop"})
		case "reply2": // two replies from two goroutines: both race for the same future
			sender := ctx.Sender()
			go ctx.Tell(sender, &vfHamMsg{Op: "noop"})
			ctx.Reply(&vfHamMsg{Op: "noop"})
		}
	case vfStreamEv0, vfStreamEv1:
		a.count.Add(1)
	}
}

func vfHamOptions(a *vfHamActor) []vivid.ActorOption {
	mk := vivid.SupervisionStrategyDecisionMakerFN(func(vivid.SupervisionContext) (vivid.SupervisionDecision, string) {
		return a.decision, "vf-ham"
	})
	if a.depth%2 == 0 {
		return []vivid.ActorOption{vivid.WithActorSupervisionStrategy(vivid.OneForOneStrategy(mk))}
	}
	return []vivid.ActorOption{vivid.WithActorSupervisionStrategy(vivid.OneForAllStrategy(mk))}
}

func vfHamTree(sys *System) (registered, unreachable, unlisted []string) {
	acts := map[string]*Context{}
	sys.actorContexts.Range(func(k, v any) bool {
		if c, ok := v.(*Context); ok {
			acts[k.(string)] = c
		}
		return true
	})
	reach := map[string]bool{}
	var walk func(c *Context)
	walk = func(c *Context) {
		for _, ch := range c.Children() {
			p := ch.GetPath()
			if reach[p] {
				continue
			}
			reach[p] = true
			if cc, ok := acts[p]; ok {
				walk(cc)
			}
		}
	}
	if sys.Context != nil {
		walk(sys.Context)
	}
	for p := range acts {
		registered = append(registered, p)
		if !reach[p] && p != "/" {
			unreachable = append(unreachable, p)
		}
	}
	for p := range reach {
		if _, ok := acts[p]; !ok {
			unlisted = append(unlisted, p)
		}
	}
	sort.Strings(unreachable)
	sort.Strings(unlisted)
	return
}

// vfHamFutureStorm: one Ask whose future is completed, closed, awaited and piped by 3-8 goroutines released at the same
// moment, while the reply (or two replies from two goroutines) and a timeout of about the reply latency race with them.
// Besides the race detector and the crash sentinel there is a one-shot monitor: everything any observer ever gets from
// Result()/Wait() of that future must be the same (value, error).
func vfHamFutureStorm(R *verifrt.Report, ci int, sys *System, r vivid.ActorRef, rng *verifrt.Rand) {
	op := []string{"reply", "reply", "reply2", "noop"}[rng.Intn(4)]
	to := []time.Duration{20 * time.Microsecond, 100 * time.Microsecond, 500 * time.Microsecond, 5 * time.Millisecond, 50 * time.Millisecond}[rng.Intn(5)]
	var f vivid.Future[vivid.Message]
	if rng.Intn(4) == 0 {
		// a future completed by a task goroutine (Entrust) instead of a reply: value, error or panic, after a short spin
		mode, spin := rng.Intn(3), rng.Intn(2000)
		op = fmt.Sprintf("entrust/%d", mode)
		f = sys.Entrust(to, vivid.EntrustTaskFN(func() (vivid.Message, error) {
			for i := 0; i < spin; i++ {
				runtime.Gosched()
			}
			switch mode {
			case 0:
				return &vfHamMsg{Op: "noop"}, nil
			case 1:
				return nil, fmt.Errorf("vf-task-error")
			}
			panic("vf-task-panic")
		}))
	} else {
		f = sys.Ask(r, &vfHamMsg{Op: op}, to)
	}
	k := 3 + rng.Intn(6)
	type obs struct {
		msg vivid.Message
		err error
		set bool
	}
	seen := make([]obs, k+1)
	kinds := make([]int, k)
	for i := range kinds {
		kinds[i] = rng.Intn(6)
	}
	errA, errB := fmt.Errorf("vf-close-a"), fmt.Errorf("vf-close-b")
	start := make(chan struct{})
	var wg sync.WaitGroup
	for i := 0; i < k; i++ {
		wg.Add(1)
		go func(i int) {
			defer wg.Done()
			<-start
			switch kinds[i] {
			case 0:
				f.Close(errA)
			case 1:
				f.Close(errB)
			case 2:
				_ = f.PipeTo(vivid.ActorRefs{r})
			case 3:
				_ = f.Wait()
			default:
				m, e := f.Result()
				seen[i] = obs{m, e, true}
			}
		}(i)
	}
	close(start)
	wg.Wait()
	f.Close(errA) // noop if completed; makes sure the final read below cannot block
	m, e := f.Result()
	seen[k] = obs{m, e, true}
	for i := 0; i < k; i++ {
		if seen[i].set && (seen[i].msg != m || (seen[i].err == nil) != (e == nil) || (e != nil && seen[i].err.Error() != e.Error())) {
			R.Violate(ci, "c10-future-observers-disagree", "Result", fmt.Sprintf("one future, two observations: (%v, %v) and later (%v, %v); op=%s timeout=%v concurrent callers=%v", seen[i].msg, seen[i].err, m, e, op, to, kinds), nil)
			break
		}
	}
}

func vfHammerBatch(R *verifrt.Report, ci int, seed uint64, workers int, dur time.Duration, focus string) {
	sys := NewSystem(vivid.WithActorSystemLogger(log.NewSilentLogger()))
	if err := sys.Start(); err != nil {
		R.Violate(ci, "c10-start-error", "Start", err.Error(), nil)
		return
	}
	var refsMu sync.Mutex
	var refs []vivid.ActorRef
	addRef := func(r vivid.ActorRef) {
		refsMu.Lock()
		if len(refs) < 4096 {
			refs = append(refs, r)
		} else {
			refs[int((seed+uint64(len(refs)))%uint64(len(refs)))] = r
		}
		refsMu.Unlock()
	}
	pick := func(rng *verifrt.Rand) vivid.ActorRef {
		refsMu.Lock()
		defer refsMu.Unlock()
		if len(refs) == 0 {
			return nil
		}
		return refs[rng.Intn(len(refs))]
	}
	var ops [12]atomic.Int64
	var stop atomic.Bool
	var wg sync.WaitGroup
	es := sys.EventStream()
	for wk := 0; wk < workers; wk++ {
		wg.Add(1)
		go func(wk int) {
			defer wg.Done()
			rng := verifrt.NewRand(seed + uint64(wk)*7919)
			for !stop.Load() {
				r := pick(rng)
				op := rng.Intn(100)
				if focus == "eventstream" && r != nil {
					// event-stream focus: the same few event types are published, subscribed and unsubscribed from all workers at
					// once, and short-lived actors subscribe on launch and die (UnsubscribeAll at termination)
					switch f := rng.Intn(100); {
					case f < 4:
						op = 0 // ActorOf
					case f < 8:
						op = 60 // Kill
					case f < 38:
						op = 70 // Subscribe
					case f < 62:
						op = 80 // Unsubscribe / UnsubscribeAll
					default:
						op = 90 // Publish
					}
				}
				if focus == "futures" && r != nil {
					switch f := rng.Intn(100); {
					case f < 30:
						// one future, 3-8 concurrent callers, racing replies and timeout
						vfHamFutureStorm(R, ci, sys, r, rng)
						ops[2].Add(1)
						continue
					case f < 50:
						// a dying asker: the actor takes out a few futures with staggered short timeouts (half of them never
						// answered) and then fails, kills itself or is killed from outside, so that its sweep of outstanding futures
						// coincides with the timers and replies that complete and deregister them from other goroutines
						if rng.Bool() { // a fresh asker (certainly alive when it asks) or an existing one
							a := &vfHamActor{depth: 0, decision: vfAllDecisions[rng.Intn(5)]}
							ref, err := sys.ActorOf(a, vfHamOptions(a)...)
							if err != nil {
								continue
							}
							ops[0].Add(1)
							if rng.Intn(4) == 0 {
								addRef(ref)
							}
							r = ref
						}
						for i, k := 0, 1+rng.Intn(5); i < k; i++ {
							sys.Tell(r, &vfHamMsg{Op: "ask", To: pick(rng)})
						}
						for i, k := 0, rng.Intn(300); i < k; i++ {
							runtime.Gosched()
						}
						switch rng.Intn(4) {
						case 0:
							sys.Tell(r, &vfHamMsg{Op: "panic"})
						case 1:
							sys.Tell(r, &vfHamMsg{Op: "killself"})
						default:
							sys.Kill(r, rng.Bool(), "vf-ham")
						}
						ops[1].Add(1)
						continue
					}
				}
				switch {
				case op < 12 || r == nil:
					a := &vfHamActor{depth: 0, decision: vfAllDecisions[rng.Intn(5)], subscribe: focus == "eventstream"}
					if ref, err := sys.ActorOf(a, vfHamOptions(a)...); err == nil {
						addRef(ref)
					}
					ops[0].Add(1)
				case op < 40:
					kinds := []string{"noop", "ask", "spawn", "spawn", "panic", "failed", "killself", "ask", "ask"}
					k := kinds[rng.Intn(len(kinds))]
					if k == "ask" {
						sys.Tell(r, &vfHamMsg{Op: "ask", To: pick(rng)})
					} else {
						sys.Tell(r, &vfHamMsg{Op: k})
					}
					ops[1].Add(1)
				case op < 52:
					f := sys.Ask(r, &vfHamMsg{Op: "reply"}, 20*time.Millisecond)
					switch rng.Intn(4) {
					case 0:
						go func() { _, _ = f.Result() }()
						f.Close(nil)
					case 1:
						_ = f.PipeTo(vivid.ActorRefs{r})
						_ = f.Wait()
					default:
						_, _ = f.Result()
					}
					ops[2].Add(1)
				case op < 60:
					sys.Kill(r, rng.Bool(), "vf-ham")
					ops[3].Add(1)
				case op < 70:
					if found, err := sys.FindActor(r.String()); err == nil && found != nil {
						addRef(found)
					}
					ops[4].Add(1)
				case op < 78:
					c := vfESCtx{r}
					if rng.Bool() {
						es.Subscribe(c, vfStreamEv0{})
					} else {
						es.Subscribe(c, vfStreamEv1{})
					}
					ops[5].Add(1)
				case op < 84:
					c := vfESCtx{r}
					if rng.Bool() {
						es.Unsubscribe(c, vfStreamEv0{})
					} else {
						es.UnsubscribeAll(c)
					}
					ops[6].Add(1)
				case op < 92:
					if rng.Bool() {
						es.Publish(vfESCtx{sys.Ref()}, vfStreamEv0{})
					} else {
						es.Publish(vfESCtx{sys.Ref()}, vfStreamEv1{})
					}
					ops[7].Add(1)
				default:
					c := r.Clone()
					_ = c.Equals(r)
					_ = c.String()
					_ = r.GetPath() + r.GetAddress()
					if p, err := sys.ParseRef(r.String()); err == nil {
						sys.Tell(p, &vfHamMsg{Op: "noop"})
					}
					ops[8].Add(1)
				}
				if rng.Intn(64) == 0 {
					runtime.Gosched()
				}
			}
		}(wk)
	}
	time.Sleep(dur)
	stop.Store(true)
	wg.Wait()
	// quiescence (real time): the tree must be consistent in 3 consecutive samples
	var unreachable, unlisted []string
	consistent := 0
	for try := 0; try < 40 && consistent < 3; try++ {
		time.Sleep(100 * time.Millisecond)
		_, unreachable, unlisted = vfHamTree(sys)
		if len(unreachable) == 0 && len(unlisted) == 0 {
			consistent++
		} else {
			consistent = 0
		}
	}
	if consistent < 3 {
		if len(unreachable) > 0 {
			R.Violate(ci, "c10-tree-registered-but-unreachable", "registry", fmt.Sprintf("4 s after all callers stopped %d registered actor(s) are not reachable from the root through children tables: %v", len(unreachable), vfClipStr(unreachable, 8)), nil)
		}
		if len(unlisted) > 0 {
			R.Violate(ci, "c10-tree-child-listed-but-unregistered", "children", fmt.Sprintf("4 s after all callers stopped %d child entries point to unregistered actors: %v", len(unlisted), vfClipStr(unlisted, 8)), nil)
		}
	}
	reg, _, _ := vfHamTree(sys)
	// a few callers keep asking while the system stops: the root (the asker of System.Ask) and every dying actor sweep
	// their outstanding futures while new ones are registered and old ones complete
	var stormStop atomic.Bool
	var stormWG sync.WaitGroup
	for g := 0; g < 4; g++ {
		stormWG.Add(1)
		go func(g int) {
			defer stormWG.Done()
			rng := verifrt.NewRand(seed + 991*uint64(g))
			for i := 0; !stormStop.Load() && i < 200000; i++ {
				if r := pick(rng); r != nil {
					f := sys.Ask(r, &vfHamMsg{Op: "reply"}, time.Duration(1+rng.Intn(20))*time.Millisecond)
					if i%4 == 0 {
						_, _ = f.Result()
					}
					if i%7 == 0 {
						sys.Tell(r, &vfHamMsg{Op: "ask", To: pick(rng)})
					}
				}
			}
		}(g)
	}
	defer func() { stormStop.Store(true); stormWG.Wait() }()
	done := make(chan error, 1)
	go func() { done <- sys.Stop(20 * time.Second); stormStop.Store(true) }()
	select {
	case err := <-done:
		if err != nil {
			// Stop's timeout is a wall-clock bound on a machine loaded by the race detector: it only counts when the
			// termination has really stopped making progress (logical observation: the registry no longer shrinks)
			count := func() int {
				n := 0
				sys.actorContexts.Range(func(k, v any) bool {
					if _, ok := v.(*Context); ok {
						n++
					}
					return true
				})
				return n
			}
			// ... nor does the root's backlog: Stop is a poison kill of the root, which is handled after everything queued
			// before it (on a loaded machine the dead letters of the hammer alone can take longer than the timeout)
			backlog := func() int32 {
				if sys.Context != nil {
					if mb, ok := sys.Context.mailbox.(*mailbox.UnboundedMailbox); ok {
						u, s := mailbox.VfPending(mb)
						return u + s
					}
				}
				return 0
			}
			last, lastB, stagnant := count(), backlog(), 0
			for i := 0; i < 180 && last > 0 && stagnant < 10; i++ {
				time.Sleep(time.Second)
				c, b := count(), backlog()
				if c < last || b < lastB {
					stagnant = 0
				} else {
					stagnant++
				}
				last, lastB = c, b
			}
			if last == 0 {
				R.Inconcl(fmt.Sprintf("batch %d: Stop(20s) timed out under load but the termination completed afterwards (slow, not stuck)", ci))
				goto counted
			}
			var left []string
			sys.actorContexts.Range(func(k, v any) bool {
				if c, ok := v.(*Context); ok && len(left) < 40 {
					c.childrenLock.Lock()
					nch := len(c.children)
					c.childrenLock.Unlock()
					left = append(left, fmt.Sprintf("%s[state=%d paused=%v zombie=%v children=%d restarting=%v]", k, atomic.LoadInt32(&c.state), c.mailbox.IsPaused(), c.zombie, nch, c.restarting != nil))
				}
				return true
			})
			sort.Strings(left)
			R.Violate(ci, "c10-actors-stuck-after-stop", "Stop", fmt.Sprintf("Stop after the hammer returned %v and neither the registry nor the root's backlog shrank for 10 s with %d actor(s) left (registered before Stop: %d): %v", err, last, len(reg), left), nil)
		}
	case <-time.After(60 * time.Second):
		buf := make([]byte, 1<<18)
		buf = buf[:runtime.Stack(buf, true)]
		R.Violate(ci, "c10-stop-hang", "Stop", "Stop(20s) did not return within 60 s after the hammer\n"+verifrt.Short(string(buf), 20000), nil)
	}
counted:
	names := []string{"ActorOf", "Tell", "Ask+Future", "Kill", "FindActor", "Subscribe", "Unsubscribe", "Publish", "Ref"}
	var total int64
	for i, n := range names {
		R.Obs("ops_"+n, ops[i].Load())
		total += ops[i].Load()
	}
	R.Obs("actors_registered_at_quiescence", int64(len(reg)))
	R.Nontrivial(fmt.Sprintf("%d:%d:%d", ci, workers, total))
	if ci < 2 {
		R.Sample(map[string]any{"batch": ci, "workers": workers, "duration": dur.String(), "api_calls": total, "registered_at_quiescence": len(reg)})
	}
}

func vfClipStr(s []string, n int) []string {
	if len(s) > n {
		return append(append([]string(nil), s[:n]...), fmt.Sprintf("… (%d)", len(s)))
	}
	return s
}

func TestVerif_hammer(t *testing.T)     { vfHammer(t, "hammer") }
func TestVerif_hammerfast(t *testing.T) { vfHammer(t, "hammerfast") }

func vfHammer(t *testing.T, check string) {
	R := verifrt.NewReport(check, "(hammer: under the race detector; hammerfast: the same batches without it, i.e. at full speed, where the runtime's own concurrent-map checks and crashes are the monitor) real-time batches under the race detector: 8-64 goroutines call only what is documented as concurrency-safe (ActorSystem.ActorOf/Tell/Ask/Kill/FindActor, EventStream Subscribe/Unsubscribe/UnsubscribeAll/Publish with the system's stream, every Future method, ActorRef methods on shared refs, ParseRef; a third of the batches concentrates on the event stream, a third on futures: each Ask's future is closed / awaited / piped by 3-8 goroutines released together while one or two replies and a timeout of about the reply latency race with them, and every observation of one future must be the same; in the same batches fresh and existing actors take out 1-5 futures of their own with staggered timeouts of 1-40 ms, half never answered, and then panic, kill themselves or are killed, so that the sweep of a dying asker's futures coincides with the timers and replies completing them) for 1.5-4 s while the actors spawn children from their own handlers (depth <= 3), panic / Failed under all five non-escalating decisions with one-for-one and one-for-all strategies, and kill themselves; one child process per batch. Monitors: race reports with a vivid frame (parsed by the driver), process-fatal errors, registry == set reachable from the root through children tables in 3 consecutive samples after the callers stopped, Stop returns. non-trivial+distinct = batches (each a different PRNG stream and worker count)")
	defer R.Flush()
	n := verifrt.EnvInt("VERIF_N", 6)
	dur := 2 * time.Second
	if verifrt.Thorough() {
		n, dur = 48, 4*time.Second
	}
	only := verifrt.EnvInt("VERIF_CASE", -1)
	for ci := 0; ci < n; ci++ {
		if !verifrt.Mine(ci) || (only >= 0 && only != ci) {
			continue
		}
		seed := verifrt.CaseSeed(check, ci)
		workers := []int{8, 16, 32, 64}[ci%4]
		focus := []string{"mixed", "eventstream", "futures"}[(ci/2)%3]
		R.Journal(ci, fmt.Sprintf("batch workers=%d dur=%v focus=%s", workers, dur, focus))
		if focus == "futures" || focus == "eventstream" {
			// widen the windows inside future.go / system.go / event_stream.go (yield points inserted by vinstr; lock-free fuzz mode, see verifrt)
			verifrt.Begin(verifrt.ModeFuzzFree, seed, 0)
		}
		vfHammerBatch(R, ci, seed, workers, dur, focus)
		verifrt.End()
		R.Eval()
		R.Flush()
	}
	_ = strings.TrimSpace
}
