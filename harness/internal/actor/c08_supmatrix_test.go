//go:build verif

package actor

import (
	"fmt"
	"runtime"
	"sort"
	"strings"
	"testing"
	"testing/synctest"
	"time"

	"github.com/kercylan98/vivid"
	"github.com/kercylan98/vivid/internal/verifrt"
)

// C08 / C09 (+ C01 overlap, C03 ledger, C05 lifecycle, C06 order as cross-cutting monitors):
// the supervision matrix, enumerated, each cell run in a synctest bubble and compared with a small
// executable reference model of (tree, strategies, decisions, failure site) -> per-actor outcome.

type vfCell struct {
	Shape    int    // 1: only child  2: two siblings  3: siblings + grandchildren  4: failing grandchild
	Site     string // msg | launch | childdead | sched
	Mode     int    // 0 panic, 1 Failed
	D1       vivid.SupervisionDecision
	S1       int
	D2       vivid.SupervisionDecision // used when D1 escalates
	S2       int                       // 0: supervisor #2 has no strategy (system default)
	D3       vivid.SupervisionDecision // used when D2 escalates and supervisor #3 exists with a strategy (0 = system default)
	Provider bool
	Burst    int // number of messages queued around the failing one (msg site)
	FailPos  int // position of the failing message in the burst (0-based)
	Hook     string // "" | prerestart-err | prerestart-panic | restarted-err | restarted-panic | prelaunch-err | prelaunch-panic
	// Respawn: before the failure the supervisor kills the failing actor's sibling and re-creates it under the same name in
	// one handler (so the old sibling's death notice is stale when the supervisor gets to it). The re-created sibling is a
	// child like any other: a one-for-all decision reaches it, a one-for-one decision leaves it alone.
	Respawn bool
	// Relaunch: the failure is answered with Restart, the new incarnation fails again in its OnLaunch, and the supervisor -
	// taking its time over the repeated failure - then decides D2r. Until that second decision is applied the failed
	// incarnation must not handle anything (only Resume lets a failed actor continue); under Stop the mail queued behind
	// the first failure is dead-lettered, never handled.
	Relaunch bool
	D2r      vivid.SupervisionDecision
}

func (c vfCell) String() string {
	s := fmt.Sprintf("shape=%d site=%s mode=%d L1=%s/%s L2=%s/%s L3=%s provider=%v burst=%d@%d hook=%s", c.Shape, c.Site, c.Mode, c.D1, vfStratName(c.S1), vfDecName(c.D2), vfStratName(c.S2), vfDecName(c.D3), c.Provider, c.Burst, c.FailPos, c.Hook)
	if c.Respawn {
		s += " sibling-respawned-under-the-same-name"
	}
	if c.Relaunch {
		s += " relaunch-fails-then-" + c.D2r.String()
	}
	return s
}

func vfDecName(d vivid.SupervisionDecision) string {
	if d == 0 {
		return "-"
	}
	return d.String()
}

func vfStratName(s int) string { return [...]string{"default", "one-for-one", "one-for-all"}[s] }

var vfAllDecisions = []vivid.SupervisionDecision{
	vivid.SupervisionDecisionRestart, vivid.SupervisionDecisionGracefulRestart, vivid.SupervisionDecisionStop,
	vivid.SupervisionDecisionGracefulStop, vivid.SupervisionDecisionResume, vivid.SupervisionDecisionEscalate,
}

// tree description used by both the runner and the model
type vfTree struct {
	parent   map[string]string
	children map[string][]string
	fail     string
	specs    map[string]*vfSpec
	top      *vfSpec
}

func (t *vfTree) desc(n string) []string {
	var out []string
	for _, c := range t.children[n] {
		out = append(out, c)
		out = append(out, t.desc(c)...)
	}
	return out
}

func vfBuildTree(c vfCell) *vfTree {
	t := &vfTree{parent: map[string]string{}, children: map[string][]string{}, specs: map[string]*vfSpec{}}
	mk := func(name, parent string) *vfSpec {
		s := &vfSpec{Name: name}
		t.specs[name] = s
		t.parent[name] = parent
		if parent != "" {
			t.children[parent] = append(t.children[parent], name)
			t.specs[parent].Children = append(t.specs[parent].Children, s)
		}
		return s
	}
	t.top = mk("T", "")
	mk("P", "T")
	mk("A", "P")
	switch c.Shape {
	case 1:
		t.fail = "A"
	case 2:
		mk("B", "P")
		t.fail = "A"
	case 3:
		mk("B", "P")
		mk("G", "A")
		mk("H", "B")
		t.fail = "A"
	case 4:
		mk("B", "P")
		mk("G", "A")
		mk("G2", "A")
		t.fail = "G"
	}
	f := t.specs[t.fail]
	f.FailMode = c.Mode
	f.Provider = c.Provider
	switch c.Site {
	case "launch":
		f.FailLaunchInc = 1
	case "childdead":
		mk("X", t.fail)
		f.FailChildDead = "X"
	case "sched":
		f.OnceFail = 10 * time.Millisecond
	case "stopfail": // the failing actor is being stopped and panics on its child's death notice while in the killing state
		mk("X", t.fail)
		f.FailChildDead = "X"
	}
	if c.Hook != "" {
		parts := strings.Split(c.Hook, "-")
		code := 1
		if parts[1] == "panic" {
			code = 2
		}
		f.HookFail = map[string]int{parts[0]: code}
	}
	sup1 := t.parent[t.fail]
	t.specs[sup1].Strategy, t.specs[sup1].Decisions = c.S1, []vivid.SupervisionDecision{c.D1}
	if c.Relaunch {
		f.FailLaunchInc = 2
		t.specs[sup1].Decisions = []vivid.SupervisionDecision{c.D1, c.D2r}
		t.specs[sup1].DecisionDelay = time.Millisecond
	}
	if c.D1.IsEscalate() && c.S2 != vfStratNone {
		sup2 := t.parent[sup1]
		t.specs[sup2].Strategy, t.specs[sup2].Decisions = c.S2, []vivid.SupervisionDecision{c.D2}
		if c.D2.IsEscalate() && c.D3 != 0 {
			if sup3 := t.parent[sup2]; sup3 != "" {
				t.specs[sup3].Strategy, t.specs[sup3].Decisions = vfStratOne, []vivid.SupervisionDecision{c.D3}
			}
		}
	}
	return t
}

// vfOutcome is the reference model's prediction.
type vfOutcome struct {
	calls     map[string]int    // supervisor name -> decision-maker calls
	cat       map[string]string // actor name -> untouched | resumed | restarted | respawned | stopped | zombie
	final     vivid.SupervisionDecision
	targets   map[string]bool // every actor that was a target at some level of the chain (pause commands are legitimate)
	failFate  string          // what happens to the failing actor: resumed | restarted | killed
	graceful  bool
}

func vfModel(c vfCell, t *vfTree) vfOutcome {
	o := vfOutcome{calls: map[string]int{}, cat: map[string]string{}, targets: map[string]bool{}}
	for n := range t.specs {
		o.cat[n] = "untouched"
	}
	failing := t.fail
	var final vivid.SupervisionDecision
	var targets []string
	if c.Site == "stopfail" {
		// a failure while an actor is already stopping does not trigger supervision: it just terminates
		o.final = vivid.SupervisionDecisionStop
		o.cat[t.fail] = "stopped"
		for _, dsc := range t.desc(t.fail) {
			o.cat[dsc] = "stopped"
		}
		o.failFate = "killed"
		return o
	}
	for {
		sup := t.parent[failing]
		var d vivid.SupervisionDecision
		strat := vfStratOne
		if sup == "" { // supervisor is the root guard: system default
			d = vivid.SupervisionDecisionStop
		} else if sp := t.specs[sup]; sp.Strategy != vfStratNone {
			d, strat = sp.Decisions[0], sp.Strategy
			o.calls[sup]++
		} else {
			d = vivid.SupervisionDecisionStop
		}
		if strat == vfStratAll {
			targets = append([]string(nil), t.children[sup]...)
		} else {
			targets = []string{failing}
		}
		for _, x := range targets {
			o.targets[x] = true
		}
		if d.IsEscalate() && sup != "" {
			failing = sup
			continue
		}
		final = d
		break
	}
	o.final = final
	o.graceful = final.IsGraceful()
	isTarget := map[string]bool{}
	for _, x := range targets {
		isTarget[x] = true
	}
	switch {
	case final.IsResume():
		for n := range o.targets {
			o.cat[n] = "resumed"
		}
		o.failFate = "resumed"
	case final.IsRestart():
		for _, x := range targets {
			o.cat[x] = "restarted"
			for _, dsc := range t.desc(x) {
				o.cat[dsc] = "respawned"
			}
		}
		if isTarget[t.fail] {
			o.failFate = "restarted"
		} else {
			o.failFate = "killed"
		}
	case final.IsStop():
		for _, x := range targets {
			o.cat[x] = "stopped"
			for _, dsc := range t.desc(x) {
				o.cat[dsc] = "stopped"
			}
		}
		o.failFate = "killed"
	}
	// restart hook failure on the failing actor => zombie (only when it is itself restarted)
	if c.Hook != "" && o.cat[t.fail] == "restarted" && !strings.HasPrefix(c.Hook, "prerestart") {
		o.cat[t.fail] = "zombie"
		o.failFate = "zombie"
		for _, dsc := range t.desc(t.fail) {
			o.cat[dsc] = "stopped" // killed by the restart's kill chain, never re-spawned (no OnLaunch)
		}
	}
	return o
}

// vfCellResult survives a bubble panic / hang: it is filled progressively.
type vfCellResult struct {
	zombieReleased bool
	viols []vfViol
	trace string
	sig   string
	w     *vfWorld
}

func vfRunCell(c vfCell, res *vfCellResult) {
	w := newVfWorld()
	res.w = w
	add := func(kind, key, f string, a ...any) {
		res.viols = append(res.viols, vfViol{kind, key, fmt.Sprintf(f, a...)})
	}
	if err := w.start(); err != nil {
		add("harness-error", "start", "%v", err)
		return
	}
	t := vfBuildTree(c)
	model := vfModel(c, t)
	if _, err := w.spawnTop(t.top); err != nil {
		add("harness-error", "spawn", "%v", err)
		return
	}
	w.wait()

	respawned := ""
	if c.Respawn {
		respawned = map[int]string{2: "B", 3: "B", 4: "G2"}[c.Shape]
		w.tellName(t.parent[t.fail], &vfCmd{Op: "respawn", Arg: t.specs[respawned]})
		w.settle(time.Millisecond)
	}
	failID := -1
	var burstIDs []int
	var gate *vfGate
	switch c.Site {
	case "msg":
		op := "panic"
		if c.Mode == 1 {
			op = "failed"
		}
		fr := w.ref(t.fail)
		// hold the actor inside a handler while the burst is enqueued, so that "queued behind the failing
		// message" is a fact of the run and not a race between the sender and the consumer
		gate = newVfGate()
		w.tell(fr, "actorof", &vfCmd{ID: w.newID(), Op: "gate", Arg: gate})
		<-gate.entered
		for i := 0; i < c.Burst; i++ {
			cmd := &vfCmd{ID: w.newID(), Op: "noop", Sender: 0, Seq: i + 1}
			if i == c.FailPos {
				cmd.Op = op
				failID = cmd.ID
			}
			burstIDs = append(burstIDs, cmd.ID)
			w.tell(fr, "actorof", cmd)
		}
	case "childdead":
		w.tellName("X", &vfCmd{Op: "killself", Arg: false})
	case "stopfail":
		w.sys.Kill(w.ref(t.fail), false, "vf-stopfail")
	case "launch", "sched":
	}
	// traffic for everybody else, at the same instant
	var names []string
	for n := range t.specs {
		names = append(names, n)
	}
	sort.Strings(names)
	otherIDs := map[string][]int{}
	for _, n := range names {
		if n == t.fail || n == "X" {
			continue
		}
		for k := 0; k < 2; k++ {
			cmd := &vfCmd{ID: w.newID(), Op: "noop", Sender: 1, Seq: k + 1}
			otherIDs[n] = append(otherIDs[n], cmd.ID)
			w.tellName(n, cmd)
		}
	}
	if gate != nil {
		close(gate.release)
	}
	w.settle(time.Second)
	w.settle(time.Second)

	if c.Relaunch {
		vfCheckRelaunch(c, t, w, burstIDs, failID, add)
		res.viols = append(res.viols, w.oracleOverlap()...)
		res.viols = append(res.viols, w.oracleUnpaused()...)
		res.trace = w.traceOf()
		res.sig = "relaunch:" + c.D2r.String()
		if err := w.stop(); err != nil {
			add("c07-stop-error", "supervision", "Stop after the cell returned %v", err)
		}
		return
	}
	// zombie status / registry before probes
	acts, futs := w.registry()
	zombies := map[string]bool{}
	for p, cx := range acts {
		if cx.zombie {
			zombies[p] = true
		}
	}
	if len(futs) > 0 {
		add("c04-registration-leak", "supervision", "future registrations left: %v", futs)
	}
	res.viols = append(res.viols, w.oracleUnpaused()...)
	res.trace = w.traceOf()

	// probes (C09): after quiescence every survivor processes new mail, the dead dead-letter it
	probeID := map[string]int{}
	for _, n := range names {
		if r := w.ref(n); r != nil {
			cmd := &vfCmd{ID: w.newID(), Op: "probe", Sender: 2, Seq: 1}
			probeID[n] = cmd.ID
			w.tell(r, "actorof", cmd)
		}
	}
	w.settle(time.Second)

	log := w.snapshot()
	count := func(pred func(e vfEv) bool) int {
		n := 0
		for _, e := range log {
			if pred(e) {
				n++
			}
		}
		return n
	}
	pathOf := func(n string) string {
		p := ""
		for x := n; x != ""; x = t.parent[x] {
			p = "/" + x + p
		}
		return p
	}
	acts, _ = w.registry()

	// (1) decision-maker calls
	w.mu.Lock()
	calls := map[string]int{}
	for k, v := range w.decCalls {
		calls[k] = v
	}
	decLog := strings.Join(w.decLog, ",")
	w.mu.Unlock()
	for _, n := range names {
		if calls[n] != model.calls[n] {
			add("c08-decision-call-count", fmt.Sprintf("L1=%s", c.D1), "supervisor %s: decision maker called %d time(s), want %d (calls: %s)", n, calls[n], model.calls[n], decLog)
		}
	}
	// (2)(3)(5) per-actor outcome
	for _, n := range names {
		p := pathOf(n)
		nL := count(func(e vfEv) bool { return e.Kind == "recv" && e.Path == p && e.Msg == "L" })
		nK := count(func(e vfEv) bool { return e.Kind == "recv" && e.Path == p && e.Msg == "K" })
		nDead := count(func(e vfEv) bool { return e.Kind == "recv" && e.Path == p && e.Msg == "D:"+p })
		nRestarted := count(func(e vfEv) bool { return e.Kind == "obs" && e.Path == p && e.Msg == "restarted" })
		nKilledEv := count(func(e vfEv) bool { return e.Kind == "obs" && e.Path == p && e.Msg == "killed" })
		nPaused := count(func(e vfEv) bool { return e.Kind == "obs" && e.Path == p && e.Msg == "paused" })
		_, alive := acts[p]
		probeProcessed := count(func(e vfEv) bool { return e.Kind == "recv" && e.Path == p && e.Msg == "U" && e.ID == probeID[n] })
		probeDL := count(func(e vfEv) bool { return e.Kind == "obs" && e.Msg == "dl:U" && e.ID == probeID[n] })
		cat := model.cat[n]
		if n == "X" && c.Site == "stopfail" {
			cat = "stopped"
		} else if n == "X" && c.Site == "childdead" {
			// X was killed explicitly to trigger the failure
			switch model.cat[t.fail] {
			case "restarted":
				cat = "x-respawned"
			case "untouched", "resumed", "zombie":
				cat = "x-dead"
			default:
				cat = model.cat[n]
				if cat == "respawned" {
					cat = "x-respawned"
				} else if cat == "stopped" {
					cat = "x-dead"
				}
			}
		}
		key := cat
		got := fmt.Sprintf("OnLaunch=%d OnKill=%d OnKilled(self)=%d restartedEv=%d killedEv=%d pausedEv=%d alive=%v probe(processed=%d,dl=%d)", nL, nK, nDead, nRestarted, nKilledEv, nPaused, alive, probeProcessed, probeDL)
		if n == respawned || (respawned != "" && t.parent[n] == respawned) {
			// the sibling was killed and re-created once before the failure (its children with it): one complete life more
			// than the model's count; what the decision does to the new incarnation is what counts
			okc := false
			switch cat {
			case "untouched", "resumed":
				okc = nL == 2 && nKilledEv == 1 && nRestarted == 0 && alive && probeProcessed == 1 && probeDL == 0
			case "restarted":
				okc = nL == 3 && nKilledEv == 1 && nRestarted == 1 && alive && probeProcessed == 1 && probeDL == 0
			case "respawned":
				okc = nL == 3 && nKilledEv == 2 && nRestarted == 0 && alive && probeProcessed == 1 && probeDL == 0
			case "stopped":
				okc = nL == 2 && nKilledEv == 2 && !alive && probeProcessed == 0 && probeDL == 1
			default:
				okc = true
			}
			if !okc {
				add("c08-decision-misses-recreated-child", cat, "%s was killed and re-created under the same name before the failure; as a child of the supervisor the decision should leave it %s, observed: %s", n, cat, got)
			}
			continue
		}
		switch cat {
		case "untouched", "resumed":
			if nL != 1 || nK != 0 || nDead != 0 || nRestarted != 0 || nKilledEv != 0 || !alive {
				add("c08-untargeted-actor-affected", key, "%s should be %s: %s", n, cat, got)
			}
			if cat == "untouched" && nPaused != 0 && !model.targets[n] {
				add("c08-untargeted-actor-paused", key, "%s is not a target at any level but got %d mailbox-paused event(s)", n, nPaused)
			}
			if probeProcessed != 1 || probeDL != 0 {
				add("c09-survivor-does-not-process", key, "%s should be alive and responsive: %s", n, got)
				if cat == "resumed" {
					add("c08-resumed-actor-does-not-continue", key, "%s was a target of the chain that ended in Resume: it must continue with its state intact, but it does not process a message sent after quiescence: %s", n, got)
				}
			}
		case "restarted":
			if nL != 2 || nRestarted != 1 || nKilledEv != 0 || !alive || nDead != 1 {
				add("c08-restart-not-applied", key, "%s should have been restarted exactly once (same ref, new incarnation): %s", n, got)
			}
			if probeProcessed != 1 || probeDL != 0 {
				add("c09-survivor-does-not-process", key, "%s (restarted) should be alive and responsive: %s", n, got)
			}
		case "respawned", "x-respawned":
			wantK := 1
			if nL != 2 || nKilledEv != wantK || !alive || nRestarted != 0 {
				add("c08-restart-subtree", key, "%s should have been killed with its restarting ancestor and spawned anew: %s", n, got)
			}
			if probeProcessed != 1 || probeDL != 0 {
				add("c09-survivor-does-not-process", key, "%s (re-spawned) should be alive and responsive: %s", n, got)
			}
		case "stopped", "x-dead":
			if nKilledEv != 1 || alive || nDead != 1 || nRestarted != 0 {
				add("c08-stop-not-applied", key, "%s should have been terminated exactly once: %s", n, got)
			}
			if probeProcessed != 0 || probeDL != 1 {
				add("c09-dead-actor-probe", key, "%s is terminated, a later message must be dead-lettered exactly once: %s", n, got)
			}
		case "zombie":
			cx := acts[p]
			if cx == nil || !cx.zombie {
				add("c09-zombie-expected", key, "%s should be a registered zombie after its restart hook failed: %s", n, got)
			}
			if probeProcessed != 0 {
				add("c09-zombie-runs-user-code", key, "zombie %s ran user code for a later message: %s", n, got)
			}
			if nKilledEv != 0 {
				add("c09-zombie-sent-termination-notice", key, "zombie %s published ActorKilledEvent without being killed: %s", n, got)
			}
		}
	}
	// (4) the failing message is handled exactly once
	if failID >= 0 {
		if n := count(func(e vfEv) bool { return e.Kind == "recv" && e.Msg == "U" && e.ID == failID }); n != 1 {
			add("c08-failing-message-redelivered", fmt.Sprintf("final=%s", model.final), "failing message #%d handled %d times", failID, n)
		}
	}
	// C09: mail queued behind the failing message
	if c.Site == "msg" && model.failFate != "zombie" {
		fp := pathOf(t.fail)
		var order []int
		var killT int64 = 1 << 62
		var secondLaunchT int64 = 1 << 62
		nl := 0
		pos := map[int]int64{}
		for _, e := range log {
			if e.Kind != "recv" || e.Path != fp {
				continue
			}
			if e.Msg == "U" {
				order = append(order, e.ID)
				pos[e.ID] = e.T
			}
			if e.Msg == "K" && e.T < killT {
				killT = e.T
			}
			if e.Msg == "L" {
				nl++
				if nl == 2 {
					secondLaunchT = e.T
				}
			}
		}
		behind := burstIDs[c.FailPos+1:]
		switch {
		case model.failFate == "resumed" || (model.failFate == "restarted" && !model.graceful):
			// delivered, in order, to the resumed / restarted actor
			last := int64(0)
			for _, id := range behind {
				tm, ok := pos[id]
				if !ok {
					add("c09-queued-mail-lost", fmt.Sprintf("final=%s", model.final), "message #%d queued behind the failing one was not delivered to the %s actor (order seen %v)", id, model.failFate, order)
					break
				}
				if tm < last {
					add("c09-queued-mail-reordered", fmt.Sprintf("final=%s", model.final), "messages queued behind the failing one delivered out of order: %v (burst %v)", order, burstIDs)
				}
				if model.failFate == "restarted" && tm < secondLaunchT {
					add("c09-queued-mail-before-restart", fmt.Sprintf("final=%s", model.final), "message #%d handled before the new incarnation's OnLaunch", id)
				}
				last = tm
			}
		case model.graceful:
			// processed before the restart / stop
			last := int64(0)
			for _, id := range behind {
				tm, ok := pos[id]
				if !ok || tm > killT {
					add("c09-graceful-did-not-drain", fmt.Sprintf("final=%s", model.final), "message #%d queued before the graceful %s was not processed before it (order %v, OnKill at t%d)", id, model.final, order, killT)
					break
				}
				if tm < last {
					add("c09-queued-mail-reordered", fmt.Sprintf("final=%s", model.final), "out of order: %v", order)
				}
				last = tm
			}
		}
	}
	// zombie release: explicit Kill releases it
	if model.failFate == "zombie" {
		fp := pathOf(t.fail)
		if cx := acts[fp]; cx != nil && cx.zombie {
			// the property names two ways out: an explicit Kill, or the parent's termination (alternating by cell)
			how := "Kill"
			if par := t.parent[t.fail]; par != "" && t.parent[par] != "" && (c.Burst+c.FailPos+len(c.Hook))%2 == 1 {
				how = "parent termination"
				w.sys.Kill(w.ref(par), false, "release zombie through its parent")
			} else {
				w.sys.Kill(w.ref(t.fail), false, "release zombie")
			}
			w.settle(time.Second)
			a2, _ := w.registry()
			if _, still := a2[fp]; still {
				add("c09-zombie-not-released", how, "zombie %s is still registered after %s", fp, how)
			} else {
				// C03: once released the former zombie is an ordinary terminated actor: later mail is dead-lettered exactly
				// once, whichever way the sender got its reference (the ActorOf value has the mailbox memoised)
				fr := w.ref(t.fail)
				w.tellPostRelease(fr, "actorof", &vfCmd{Op: "noop", Sender: 3, Seq: 1})
				w.tellPostRelease(fr.Clone(), "clone", &vfCmd{Op: "noop", Sender: 3, Seq: 2})
				if pr, err := w.sys.ParseRef(fr.String()); err == nil {
					w.tellPostRelease(pr, "parse", &vfCmd{Op: "noop", Sender: 3, Seq: 3})
				}
				w.settle(time.Second)
			}
		}
	}
	// cross-cutting monitors
	res.viols = append(res.viols, w.oracleOverlap()...)
	res.viols = append(res.viols, w.oracleLedger(zombies)...)
	res.viols = append(res.viols, w.oracleLifecycle()...)
	res.viols = append(res.viols, w.oracleKillOrder()...)
	res.viols = append(res.viols, w.oracleTree()...)
	res.trace = w.traceOf()
	// signature of what was observed (distinct-case counting): per-actor outcome vector
	var sb strings.Builder
	for _, n := range names {
		sb.WriteString(n + "=" + model.cat[n] + ";")
	}
	res.sig = sb.String()
	if err := w.stop(); err != nil {
		add("c07-stop-error", "supervision", "Stop after the cell returned %v", err)
	}
}

// vfCheckRelaunch: oracle of the Relaunch cells (see vfCell.Relaunch).
func vfCheckRelaunch(c vfCell, t *vfTree, w *vfWorld, burstIDs []int, failID int, add func(kind, key, f string, a ...any)) {
	fp := ""
	for x := t.fail; x != ""; x = t.parent[x] {
		fp = "/" + x + fp
	}
	log := w.snapshot()
	key := "relaunch/" + c.D2r.String()
	// (1) from its failure until the supervisor has made up its mind (the decision maker has returned) a failed incarnation
	// handles no user message: it is suspended, whatever the decision will be
	failedInst, failedAt := -1, int64(0)
	for _, e := range log {
		switch {
		case e.Path == fp && e.Kind == "api" && e.Msg == "fail":
			failedInst, failedAt = e.Inst, e.T
		case e.Kind == "api" && e.Msg == "decided" && e.Aux == fp:
			failedInst = -1
		case e.Path == fp && e.Kind == "recv" && e.Msg == "U" && failedInst >= 0 && e.Inst == failedInst:
			add("c08-failed-actor-keeps-processing", key, "%s (instance %d) failed at t%d and handled user message #%d at t%d, before its supervisor had decided about that failure", fp, failedInst, failedAt, e.ID, e.T)
			failedInst = -1
		}
	}
	// (2) the fate of the mail queued behind the first failure
	count := func(pred func(e vfEv) bool) (n int) {
		for _, e := range log {
			if pred(e) {
				n++
			}
		}
		return
	}
	behind := false
	for _, id := range burstIDs {
		if id == failID {
			behind = true
			continue
		}
		if !behind {
			continue
		}
		np := count(func(e vfEv) bool { return e.Kind == "recv" && e.Msg == "U" && e.ID == id })
		nd := count(func(e vfEv) bool { return e.Kind == "obs" && e.Msg == "dl:U" && e.ID == id })
		switch {
		case c.D1.IsGraceful():
			// a graceful first Restart drains the queue before it restarts: handled by the first incarnation, legitimately
			if np+nd != 1 {
				add("c03-two-fates", key, "message #%d queued behind the first failure: handled %d times, dead-lettered %d times", id, np, nd)
			}
		case c.D2r.IsStop() && !c.D2r.IsGraceful() && (np != 0 || nd != 1):
			add("c08-stop-not-applied", key, "message #%d was queued behind the first failure; the restarted incarnation failed in OnLaunch and the decision was Stop: it must be dead-lettered once and never handled (handled %d times, dead-lettered %d times)", id, np, nd)
		case np+nd != 1:
			add("c03-two-fates", key, "message #%d queued behind the first failure: handled %d times, dead-lettered %d times", id, np, nd)
		}
	}
}

func vfEnumerateCells() []vfCell {
	var cells []vfCell
	sites := []string{"msg", "launch", "childdead", "sched"}
	for _, shape := range []int{1, 2, 3, 4} {
		for _, site := range sites {
			for mode := 0; mode < 2; mode++ {
				for _, s1 := range []int{vfStratOne, vfStratAll} {
					for _, d1 := range vfAllDecisions {
						base := vfCell{Shape: shape, Site: site, Mode: mode, D1: d1, S1: s1, Burst: 4, FailPos: 1, Provider: (shape+mode)%2 == 0}
						if !d1.IsEscalate() {
							cells = append(cells, base)
							continue
						}
						// escalation chains
						c0 := base
						c0.S2 = vfStratNone // system default at level 2
						cells = append(cells, c0)
						for _, s2 := range []int{vfStratOne, vfStratAll} {
							for _, d2 := range vfAllDecisions {
								c2 := base
								c2.S2, c2.D2 = s2, d2
								if d2.IsEscalate() {
									c2.D3 = 0 // level 3: system default
									cells = append(cells, c2)
									if shape == 4 { // a third supervisor with its own strategy exists only for the grandchild shape
										for _, d3 := range []vivid.SupervisionDecision{vivid.SupervisionDecisionRestart, vivid.SupervisionDecisionResume, vivid.SupervisionDecisionGracefulStop} {
											c3 := c2
											c3.D3 = d3
											cells = append(cells, c3)
										}
									}
								} else {
									cells = append(cells, c2)
								}
							}
						}
					}
				}
			}
		}
	}
	// the restarted incarnation fails again in OnLaunch; second decision after a (virtual) delay
	for _, shape := range []int{1, 2, 3} {
		for _, s1 := range []int{vfStratOne, vfStratAll} {
			for _, d1 := range []vivid.SupervisionDecision{vivid.SupervisionDecisionRestart, vivid.SupervisionDecisionGracefulRestart} {
				for _, d2 := range []vivid.SupervisionDecision{vivid.SupervisionDecisionStop, vivid.SupervisionDecisionGracefulStop, vivid.SupervisionDecisionResume, vivid.SupervisionDecisionRestart} {
					cells = append(cells, vfCell{Shape: shape, Site: "msg", D1: d1, S1: s1, Burst: 5, FailPos: 1, Relaunch: true, D2r: d2})
				}
			}
		}
	}
	// a sibling killed and re-created under the same name before the failure
	for _, shape := range []int{2, 3, 4} {
		for _, s1 := range []int{vfStratOne, vfStratAll} {
			for _, d1 := range vfAllDecisions {
				base := vfCell{Shape: shape, Site: "msg", D1: d1, S1: s1, Burst: 4, FailPos: 1, Respawn: true}
				if !d1.IsEscalate() {
					cells = append(cells, base)
					continue
				}
				for _, d2 := range []vivid.SupervisionDecision{vivid.SupervisionDecisionRestart, vivid.SupervisionDecisionStop, vivid.SupervisionDecisionResume} {
					c2 := base
					c2.S2, c2.D2 = vfStratAll, d2
					cells = append(cells, c2)
				}
			}
		}
	}
	for _, shape := range []int{2, 3, 4} {
		for mode := 0; mode < 2; mode++ {
			for _, s1 := range []int{vfStratOne, vfStratAll} {
				for _, d1 := range []vivid.SupervisionDecision{vivid.SupervisionDecisionRestart, vivid.SupervisionDecisionStop, vivid.SupervisionDecisionResume, vivid.SupervisionDecisionEscalate} {
					cells = append(cells, vfCell{Shape: shape, Site: "stopfail", Mode: mode, D1: d1, S1: s1, S2: vfStratAll, D2: vivid.SupervisionDecisionRestart, Burst: 4, FailPos: 1})
				}
			}
		}
	}
	return cells
}

// bubbleRun runs fn in a synctest bubble with a real-time watchdog; a hang is reported as a violation kind.
func vfBubble(t *testing.T, watchdog time.Duration, fn func()) (hang bool, stacks string, panicked any) {
	done := make(chan struct{})
	go func() {
		defer close(done)
		defer func() {
			if r := recover(); r != nil {
				panicked = r
			}
		}()
		synctest.Test(t, func(t *testing.T) { fn() })
	}()
	select {
	case <-done:
		return false, "", panicked
	case <-time.After(watchdog):
		buf := make([]byte, 1<<18)
		buf = buf[:runtime.Stack(buf, true)]
		return true, string(buf), nil
	}
}

func vfRunCells(t *testing.T, R *verifrt.Report, check string, cells []vfCell) {
	only := verifrt.EnvInt("VERIF_CASE", -1)
	for ci, c := range cells {
		if !verifrt.Mine(ci) || (only >= 0 && only != ci) {
			continue
		}
		R.Journal(ci, c.String())
		res := &vfCellResult{}
		hang, stacks, pan := vfBubble(t, 60*time.Second, func() { vfRunCell(c, res) })
		R.Eval()
		viols, trace, sig := res.viols, res.trace, res.sig
		if hang {
			tr := ""
			if res.w != nil {
				tr = res.w.traceOf()
				if len(tr) > 3000 {
					tr = tr[:1500] + " …… " + tr[len(tr)-1500:]
				}
			}
			viols = append(viols, vfViol{"c09-hang", "bubble", "cell did not finish within 60 s real time (normal: ms): an actor or Stop is stuck; trace so far: " + tr + "\n" + verifrt.Short(stacks, 6000)})
		}
		if pan != nil {
			ps := fmt.Sprint(pan)
			kind := "c07-goroutines-left-after-stop"
			if !strings.Contains(ps, "deadlock") && !strings.Contains(ps, "blocked") {
				kind = "harness-panic"
			}
			viols = append(viols, vfViol{kind, "bubble", verifrt.Short(ps, 3000)})
		}
		if !hang && pan == nil {
			R.Nontrivial(c.String() + "|" + sig)
		}
		seen := map[string]bool{}
		for _, v := range viols {
			k := v.Kind + "|" + v.Key
			if seen[k] {
				continue
			}
			seen[k] = true
			R.Violate(ci, v.Kind, v.Key, v.Detail+" | cell: "+c.String()+" | trace: "+verifrt.Short(trace, 2500), map[string]any{"cell": c.String()})
		}
		if hang {
			R.Flush()
			t.Fatalf("hang in cell %d: %s", ci, c)
		}
		R.Obs("final_"+sigFinal(sig), 1)
		if ci%211 == 0 {
			R.Sample(map[string]any{"cell": c.String(), "predicted": sig, "trace": verifrt.Short(trace, 900)})
		}
	}
}

func sigFinal(sig string) string {
	switch {
	case strings.Contains(sig, "zombie"):
		return "zombie"
	case strings.Contains(sig, "restarted"):
		return "restart"
	case strings.Contains(sig, "stopped"):
		return "stop"
	case strings.Contains(sig, "resumed"):
		return "resume"
	}
	return "other"
}

func TestVerif_supmatrix(t *testing.T) {
	R := verifrt.NewReport("supmatrix", "enumerated matrix: 4 tree shapes x 4 failure sites (user message, OnLaunch, child OnKilled, scheduled message; plus 'fails on a child's death notice while itself being stopped', which must not trigger supervision) x {panic, Failed} x {one-for-one, one-for-all} x 6 decisions, every Escalate cell expanded by level-2 {system default, 2 strategies x 6 decisions} and level-3 {system default, 3 decisions}; each cell runs the real system in a synctest bubble (quiescence oracle) and is compared with an executable reference model of per-actor outcomes; traffic to every actor at the failure instant and probes after quiescence. non-trivial+distinct = distinct (cell, predicted outcome vector)")
	defer R.Flush()
	cells := vfEnumerateCells()
	R.ObsMax("max:cells_enumerated", int64(len(cells)))
	R.Exhaustive = true
	vfRunCells(t, R, "supmatrix", cells)
}

// C09 'unstuck': the same cell runner over (a) a queued burst of m in {1,3,8} messages with the failure at
// every position, (b) restart hooks (PreRestart / Restarted / Prelaunch) failing by error or panic.
func vfEnumerateUnstuck() []vfCell {
	var cells []vfCell
	for _, shape := range []int{2, 3, 4} {
		for mode := 0; mode < 2; mode++ {
			for _, s1 := range []int{vfStratOne, vfStratAll} {
				for _, d1 := range vfAllDecisions {
					for _, m := range []int{1, 3, 8} {
						for pos := 0; pos < m; pos++ {
							if m == 8 && shape != 3 && pos%3 != 0 { // thin out the largest burst on two shapes
								continue
							}
							c := vfCell{Shape: shape, Site: "msg", Mode: mode, D1: d1, S1: s1, Burst: m, FailPos: pos, Provider: (pos+mode)%2 == 1}
							if d1.IsEscalate() {
								for _, d2 := range []vivid.SupervisionDecision{vivid.SupervisionDecisionRestart, vivid.SupervisionDecisionGracefulRestart, vivid.SupervisionDecisionResume, vivid.SupervisionDecisionGracefulStop} {
									c2 := c
									c2.S2, c2.D2 = 1+(pos+m)%2, d2
									cells = append(cells, c2)
								}
								c3 := c // chain to the very top: L2 escalates too, L3 = system default
								c3.S2, c3.D2 = vfStratOne, vivid.SupervisionDecisionEscalate
								cells = append(cells, c3)
							} else {
								cells = append(cells, c)
							}
						}
					}
				}
			}
		}
	}
	hooks := []string{"prerestart-err", "prerestart-panic", "restarted-err", "restarted-panic", "prelaunch-err", "prelaunch-panic"}
	for _, shape := range []int{1, 2, 3, 4} {
		for _, site := range []string{"msg", "launch", "childdead", "sched"} {
			for _, s1 := range []int{vfStratOne, vfStratAll} {
				for _, d1 := range []vivid.SupervisionDecision{vivid.SupervisionDecisionRestart, vivid.SupervisionDecisionGracefulRestart} {
					for hi, h := range hooks {
						cells = append(cells, vfCell{Shape: shape, Site: site, Mode: hi % 2, D1: d1, S1: s1, Burst: 4, FailPos: 1, Hook: h, Provider: hi%3 == 0})
					}
				}
			}
		}
	}
	return cells
}

func TestVerif_unstuck(t *testing.T) {
	R := verifrt.NewReport("unstuck", "enumerated: (a) 3 shapes x {panic,Failed} x 2 strategies x 6 decisions (Escalate expanded by 5 level-2 continuations) x queued burst m in {1,3,8} with the failure at every position; (b) 4 shapes x 4 failure sites x 2 strategies x {restart, graceful restart} x 6 failing restart hooks (PreRestart/Restarted/Prelaunch x error/panic). Same bubble runner, reference model and monitors as supmatrix: IsPaused/state invariant at quiescence, probes after quiescence, order of mail queued behind the failure, zombie monitor and release by Kill. non-trivial+distinct = distinct (cell, predicted outcome vector)")
	defer R.Flush()
	cells := vfEnumerateUnstuck()
	R.ObsMax("max:cells_enumerated", int64(len(cells)))
	R.Exhaustive = true
	vfRunCells(t, R, "unstuck", cells)
}
