//go:build verif

package actor

import (
	"fmt"
	"hash/crc32"
	"io"
	"net"
	"runtime"
	"strings"
	"sync"
	"sync/atomic"
	"time"

	"github.com/kercylan98/vivid"
	"github.com/kercylan98/vivid/internal/messages"
	"github.com/kercylan98/vivid/internal/verifrt"
	"github.com/kercylan98/vivid/pkg/log"
	"github.com/kercylan98/vivid/pkg/ves"
)

// Real-network harness (DESIGN §2.7): loopback TCP, ports from net.Listen(":0"), an in-harness proxy that
// re-segments / cuts / refuses / black-holes the byte stream, a scheduling-stall detector.

// ---- messages --------------------------------------------------------------------------------------

type vfNetMsg struct {
	Sender  int32
	Seq     int32
	Sum     uint32
	Payload []byte
	Ask     bool
}

type vfNetReply struct {
	Sender int32
	Seq    int32
}

func init() {
	vivid.RegisterCustomMessage[*vfNetMsg]("vfNetMsg",
		func(message any, r *messages.Reader, _ messages.Codec) error {
			m := message.(*vfNetMsg)
			return r.ReadInto(&m.Sender, &m.Seq, &m.Sum, &m.Payload, &m.Ask)
		},
		func(message any, w *messages.Writer, _ messages.Codec) error {
			m := message.(*vfNetMsg)
			return w.WriteFrom(m.Sender, m.Seq, m.Sum, m.Payload, m.Ask)
		})
	vivid.RegisterCustomMessage[*vfNetReply]("vfNetReply",
		func(message any, r *messages.Reader, _ messages.Codec) error {
			m := message.(*vfNetReply)
			return r.ReadInto(&m.Sender, &m.Seq)
		},
		func(message any, w *messages.Writer, _ messages.Codec) error {
			m := message.(*vfNetReply)
			return w.WriteFrom(m.Sender, m.Seq)
		})
}

func vfNetPayload(sender, seq, size int) []byte {
	p := make([]byte, size)
	x := uint32(sender*7919 + seq*104729 + 1)
	for i := range p {
		x = x*1664525 + 1013904223
		p[i] = byte(x >> 24)
	}
	return p
}

func vfNewNetMsg(sender, seq, size int, ask bool) *vfNetMsg {
	p := vfNetPayload(sender, seq, size)
	return &vfNetMsg{Sender: int32(sender), Seq: int32(seq), Sum: crc32.ChecksumIEEE(p), Payload: p, Ask: ask}
}

// ---- sink actor: records what arrives ----------------------------------------------------------------

type vfRecv struct {
	Sender, Seq int
	SumOK       bool
	Size        int
}

type vfSink struct {
	mu      sync.Mutex
	got     []vfRecv
	replies []vfNetReply
	other   []string
	n       atomic.Int64
	killed  atomic.Int64
}

func (s *vfSink) OnReceive(ctx vivid.ActorContext) {
	switch m := ctx.Message().(type) {
	case *vfNetMsg:
		ok := crc32.ChecksumIEEE(m.Payload) == m.Sum
		s.mu.Lock()
		s.got = append(s.got, vfRecv{int(m.Sender), int(m.Seq), ok, len(m.Payload)})
		s.mu.Unlock()
		s.n.Add(1)
		if m.Ask {
			ctx.Reply(&vfNetReply{Sender: m.Sender, Seq: m.Seq})
		}
	case *vfNetReply:
		s.mu.Lock()
		s.replies = append(s.replies, *m)
		s.mu.Unlock()
		s.n.Add(1)
	case *vivid.OnKill:
		s.killed.Add(1)
	case *vivid.OnLaunch, *vivid.OnKilled:
	default:
		s.mu.Lock()
		s.other = append(s.other, fmt.Sprintf("%T", m))
		s.mu.Unlock()
	}
}

func (s *vfSink) snapshot() []vfRecv {
	s.mu.Lock()
	defer s.mu.Unlock()
	return append([]vfRecv(nil), s.got...)
}

// ---- event observer ------------------------------------------------------------------------------------

type vfNetObs struct {
	mu       sync.Mutex
	decode   []string
	closed   []string
	sendFail []string
	connFail int
	dl       []string // dead letters: "<type>#sender:seq"
	estab    int
}

func (o *vfNetObs) OnReceive(ctx vivid.ActorContext) {
	switch m := ctx.Message().(type) {
	case *vivid.OnLaunch:
		for _, e := range []any{ves.RemotingMessageDecodeFailedEvent{}, ves.RemotingConnectionClosedEvent{}, ves.RemotingMessageSendFailedEvent{}, ves.RemotingConnectionFailedEvent{}, ves.DeathLetterEvent{}, ves.RemotingConnectionEstablishedEvent{}} {
			ctx.EventStream().Subscribe(ctx, e)
		}
	case ves.RemotingMessageDecodeFailedEvent:
		o.mu.Lock()
		o.decode = append(o.decode, fmt.Sprintf("size=%d err=%v", m.MessageSize, m.Error))
		o.mu.Unlock()
	case ves.RemotingConnectionClosedEvent:
		o.mu.Lock()
		o.closed = append(o.closed, fmt.Sprintf("client=%v reason=%s", m.IsClient, m.Reason))
		o.mu.Unlock()
	case ves.RemotingMessageSendFailedEvent:
		o.mu.Lock()
		o.sendFail = append(o.sendFail, fmt.Sprintf("%s: %v", m.MessageType, m.Error))
		o.mu.Unlock()
	case ves.RemotingConnectionFailedEvent:
		o.mu.Lock()
		o.connFail++
		o.mu.Unlock()
	case ves.RemotingConnectionEstablishedEvent:
		o.mu.Lock()
		o.estab++
		o.mu.Unlock()
	case ves.DeathLetterEvent:
		d := fmt.Sprintf("%T", m.Envelope.Message())
		if nm, ok := m.Envelope.Message().(*vfNetMsg); ok {
			d = fmt.Sprintf("vfNetMsg#%d:%d", nm.Sender, nm.Seq)
		}
		o.mu.Lock()
		o.dl = append(o.dl, d)
		o.mu.Unlock()
	}
}

// ---- systems -----------------------------------------------------------------------------------------

// vfFreeAddr hands out loopback ports from a lane private to this process (below the kernel's ephemeral range, so that
// neither another shard's listener nor anybody's outgoing connection can land on a port this process is about to bind):
// with ":0" two shards were seen to receive each other's traffic after the probe listener was closed.
func vfFreeAddr() string { return verifrt.FreeAddr() }

type vfNode struct {
	sys       *System
	bind, adv string
	sink      *vfSink
	sinkRef   vivid.ActorRef
	obs       *vfNetObs
}

func vfStartNode(bind, adv string, opts ...vivid.ActorSystemOption) (*vfNode, error) {
	n := &vfNode{bind: bind, adv: adv, sink: &vfSink{}, obs: &vfNetObs{}}
	all := append([]vivid.ActorSystemOption{vivid.WithActorSystemLogger(log.NewSilentLogger()), vivid.WithActorSystemRemoting(bind, adv), vivid.WithActorSystemStopTimeout(20 * time.Second)}, opts...)
	n.sys = NewSystem(all...)
	if err := n.sys.Start(); err != nil {
		return nil, err
	}
	if _, err := n.sys.ActorOf(n.obs, vivid.WithActorName("vfnetobs")); err != nil {
		return nil, err
	}
	ref, err := n.sys.ActorOf(n.sink, vivid.WithActorName("sink"))
	if err != nil {
		return nil, err
	}
	n.sinkRef = ref
	// wait until the listener accepts
	deadline := time.Now().Add(10 * time.Second)
	for time.Now().Before(deadline) {
		c, err := net.DialTimeout("tcp", bind, 200*time.Millisecond)
		if err == nil {
			_ = c.Close()
			return n, nil
		}
		time.Sleep(5 * time.Millisecond)
	}
	return nil, fmt.Errorf("listener %s did not come up", bind)
}

func (n *vfNode) remoteSink(from *vfNode) vivid.ActorRef {
	r, _ := from.sys.CreateRef(n.adv, "/sink")
	return r
}

func (n *vfNode) stop() error {
	done := make(chan error, 1)
	go func() { done <- n.sys.Stop() }()
	select {
	case err := <-done:
		return err
	case <-time.After(40 * time.Second):
		return fmt.Errorf("Stop did not return within 40 s")
	}
}

// ---- proxy -------------------------------------------------------------------------------------------

type vfProxy struct {
	ln       net.Listener
	target   string
	addr     string
	mode     atomic.Value // string: asis | 1byte | splits | coalesce | blackhole | refuse
	cutAfter atomic.Int64 // >=0: close after exactly k bytes forwarded client->server (counted over the current connection)
	seed     uint64
	mu       sync.Mutex
	conns    []net.Conn
	fwd      atomic.Int64 // bytes forwarded client->server (all connections)
	accepted atomic.Int64
	cuts     atomic.Int64
	closed   atomic.Bool
}

func vfNewProxy(target string, seed uint64) (*vfProxy, error) {
	ln, err := net.Listen("tcp", "127.0.0.1:0")
	if err != nil {
		return nil, err
	}
	p := &vfProxy{ln: ln, target: target, addr: ln.Addr().String(), seed: seed}
	p.mode.Store("asis")
	p.cutAfter.Store(-1)
	go p.loop()
	return p, nil
}

func (p *vfProxy) setMode(m string) { p.mode.Store(m) }

func (p *vfProxy) loop() {
	for {
		c, err := p.ln.Accept()
		if err != nil {
			return
		}
		p.accepted.Add(1)
		mode := p.mode.Load().(string)
		if mode == "refuse" {
			_ = c.Close()
			continue
		}
		p.mu.Lock()
		p.conns = append(p.conns, c)
		p.mu.Unlock()
		if mode == "blackhole" {
			go func() { _, _ = io.Copy(io.Discard, c) }()
			continue
		}
		s, err := net.DialTimeout("tcp", p.target, 2*time.Second)
		if err != nil {
			_ = c.Close()
			continue
		}
		p.mu.Lock()
		p.conns = append(p.conns, s)
		p.mu.Unlock()
		go p.pump(c, s, true)
		go p.pump(s, c, false)
	}
}

func (p *vfProxy) pump(src, dst net.Conn, c2s bool) {
	defer func() { _ = src.Close(); _ = dst.Close() }()
	rng := verifrt.NewRand(p.seed + uint64(p.accepted.Load())*31)
	buf := make([]byte, 64<<10)
	var sent int64
	var hold []byte
	flush := func(b []byte) bool {
		for len(b) > 0 {
			n := len(b)
			switch p.mode.Load().(string) {
			case "1byte":
				n = 1
			case "splits":
				n = 1 + rng.Intn(23)
				if rng.Chance(10) {
					n = 1 + rng.Intn(4000)
				}
			}
			if n > len(b) {
				n = len(b)
			}
			if c2s {
				if k := p.cutAfter.Load(); k >= 0 {
					if sent >= k {
						p.cuts.Add(1)
						return false
					}
					if sent+int64(n) > k {
						n = int(k - sent)
					}
				}
			}
			if n > 0 {
				if _, err := dst.Write(b[:n]); err != nil {
					return false
				}
				sent += int64(n)
				if c2s {
					p.fwd.Add(int64(n))
				}
			}
			b = b[n:]
			if c2s {
				if k := p.cutAfter.Load(); k >= 0 && sent >= k {
					p.cuts.Add(1)
					return false
				}
			}
		}
		return true
	}
	for {
		if p.mode.Load().(string) == "coalesce" {
			_ = src.SetReadDeadline(time.Now().Add(3 * time.Millisecond))
		} else {
			_ = src.SetReadDeadline(time.Time{})
		}
		n, err := src.Read(buf)
		if n > 0 {
			if p.mode.Load().(string) == "coalesce" {
				hold = append(hold, buf[:n]...)
				if len(hold) < 256<<10 {
					continue
				}
				if !flush(hold) {
					return
				}
				hold = hold[:0]
				continue
			}
			if !flush(buf[:n]) {
				return
			}
		}
		if err != nil {
			if ne, ok := err.(net.Error); ok && ne.Timeout() {
				if len(hold) > 0 {
					if !flush(hold) {
						return
					}
					hold = hold[:0]
				}
				continue
			}
			if len(hold) > 0 {
				flush(hold)
			}
			return
		}
	}
}

func (p *vfProxy) closeConns() {
	p.mu.Lock()
	for _, c := range p.conns {
		_ = c.Close()
	}
	p.conns = nil
	p.mu.Unlock()
}

func (p *vfProxy) close() {
	p.closed.Store(true)
	_ = p.ln.Close()
	p.closeConns()
}

// ---- stall detector ------------------------------------------------------------------------------------

type vfStall struct {
	max  atomic.Int64
	stop chan struct{}
}

func vfStartStall() *vfStall {
	s := &vfStall{stop: make(chan struct{})}
	go func() {
		for {
			select {
			case <-s.stop:
				return
			default:
			}
			t := time.Now()
			time.Sleep(time.Millisecond)
			if over := time.Since(t) - time.Millisecond; int64(over) > s.max.Load() {
				s.max.Store(int64(over))
			}
		}
	}()
	return s
}

func (s *vfStall) end() time.Duration { close(s.stop); return time.Duration(s.max.Load()) }

// waitCount waits until the sink has n items or no progress for quiet; returns whether n was reached.
func vfWaitCount(s *vfSink, n int64, quiet time.Duration) bool {
	last, lastT := s.n.Load(), time.Now()
	for {
		c := s.n.Load()
		if c >= n {
			return true
		}
		if c != last {
			last, lastT = c, time.Now()
		} else if time.Since(lastT) > quiet {
			return false
		}
		time.Sleep(2 * time.Millisecond)
	}
}

// vfGoroutinesIn returns stacks of goroutines that contain any of the substrings (M-gor).
func vfGoroutinesIn(subs ...string) []string {
	buf := make([]byte, 4<<20)
	buf = buf[:runtime.Stack(buf, true)]
	var out []string
	for _, g := range strings.Split(string(buf), "\n\n") {
		for _, s := range subs {
			if strings.Contains(g, s) {
				out = append(out, g)
				break
			}
		}
	}
	return out
}
