//go:build verif

package actor

import (
	"fmt"
	"sort"
	"strings"
	"sync"
	"testing"
	"time"

	"github.com/kercylan98/vivid"
	"github.com/kercylan98/vivid/internal/verifrt"
)

// C11 — remote delivery over a healthy link: exactly once, intact, in order (DESIGN §4 C11).

type vfStreamCase struct {
	Plan          string // asis | 1byte | splits | coalesce
	Burst         int
	Senders       int
	Sizes         []int
	Back          int           // messages in the opposite direction (B -> A) at the same time
	Asks          int           // concurrent Asks A -> B
	Gap           time.Duration // pause between messages (0: burst); > 0 makes a steady stream
	StopAfter     bool          // the sending system is stopped right after the last Tell returned: everything Told before must still arrive
	FirstContacts int           // > 0: that many distinct addresses of B are contacted for the first time by 8 goroutines at once
	// Unsendable > 0: every sender additionally Tells, in the middle of its burst, that many messages the sending side
	// cannot put on the wire (alternately a 5 MiB payload that does not fit into a frame and a value of a type that is
	// neither registered nor handled by a codec). The link stays up: every valid message - also those queued behind an
	// unsendable one - is still delivered exactly once and in order; the unsendable ones are dead-lettered on the sender.
	Unsendable int
}

// vfUnregistered is a message type the wire registry does not know and no codec handles.
type vfUnregistered struct{ X int }

func (c vfStreamCase) String() string {
	return fmt.Sprintf("plan=%s burst=%d senders=%d sizes=%v back=%d asks=%d gap=%v stop-after-last-tell=%v first-contacts=%d unsendable=%d", c.Plan, c.Burst, c.Senders, c.Sizes, c.Back, c.Asks, c.Gap, c.StopAfter, c.FirstContacts, c.Unsendable)
}

// vfCheckStream: the per-sender sequence monitor. lostOnlyIfLaterSeen: a gap counts as loss only if a later message
// of the same sender arrived (order makes loss a logical fact, not a timeout).
func vfCheckStream(got []vfRecv, sent map[int]int, complete bool, add func(kind, key, f string, a ...any)) {
	per := map[int][]vfRecv{}
	for _, g := range got {
		per[g.Sender] = append(per[g.Sender], g)
	}
	for s, n := range sent {
		seen := map[int]int{}
		last := 0
		maxSeq := 0
		for _, g := range per[s] {
			seen[g.Seq]++
			if !g.SumOK {
				add("c11-corrupted", "payload", "sender %d seq %d arrived with a checksum mismatch (size %d)", s, g.Seq, g.Size)
			}
			if g.Seq < 1 || g.Seq > n {
				add("c11-never-sent", "sequence", "sender %d: received seq %d that was never sent (1..%d)", s, g.Seq, n)
			}
			if g.Seq < last {
				add("c11-reordered", "sequence", "sender %d: seq %d arrived after seq %d", s, g.Seq, last)
			}
			if g.Seq > last {
				last = g.Seq
			}
			if g.Seq > maxSeq {
				maxSeq = g.Seq
			}
		}
		for q, c := range seen {
			if c > 1 {
				add("c11-duplicated", "sequence", "sender %d: seq %d delivered %d times", s, q, c)
			}
		}
		var missing []int
		for q := 1; q <= maxSeq; q++ {
			if seen[q] == 0 {
				missing = append(missing, q)
			}
		}
		if len(missing) > 0 {
			add("c11-lost", "sequence", "sender %d: %d message(s) lost although later ones arrived (sent %d, highest received %d): first missing %v", s, len(missing), n, maxSeq, clipInts(missing, 12))
		}
		if maxSeq < n && complete {
			add("c11-tail-lost", "sequence", "sender %d: messages %d..%d never arrived although the link stayed up and nothing moved for 5 s", s, maxSeq+1, n)
		}
	}
	for s := range per {
		if _, ok := sent[s]; !ok {
			add("c11-never-sent", "sender", "messages from unknown sender id %d arrived", s)
		}
	}
}

func clipInts(x []int, n int) []int {
	if len(x) > n {
		return x[:n]
	}
	return x
}

// vfRunFirstContact: the first traffic to an address comes from several goroutines at the same moment (gate-released),
// many times over: every round uses a fresh sending system, whose first contact with B it is. Per-sender order and
// exactly-once must hold from the very first message on, and one outbound connection per address is opened.
func vfRunFirstContact(c vfStreamCase, seed uint64) (viols []vfViol, info string, inconclusive string) {
	add := func(kind, key, f string, a ...any) {
		for _, v := range viols {
			if v.Kind == kind {
				return
			}
		}
		viols = append(viols, vfViol{kind, key, fmt.Sprintf(f, a...)})
	}
	stall := vfStartStall()
	// the outbound mailbox table (mailbox_central.go) carries yield points (vinstr); lock-free fuzz mode widens the window
	// in which several goroutines look up the mailbox of an address that is contacted for the first time
	verifrt.Begin(verifrt.ModeFuzzFree, seed, 0)
	defer verifrt.End()
	addrB := vfFreeAddr()
	b, err := vfStartNode(addrB, addrB)
	if err != nil {
		return nil, "", "start B: " + err.Error()
	}
	const g, per = 8, 4
	sent := map[int]int{}
	estab := 0
	for k := 0; k < c.FirstContacts; k++ {
		addrA := vfFreeAddr()
		a, err := vfStartNode(addrA, addrA)
		if err != nil {
			_ = b.stop()
			return nil, "", "start A: " + err.Error()
		}
		ref, _ := a.sys.CreateRef(addrB, "/sink")
		gate := make(chan struct{})
		var wg sync.WaitGroup
		for s := 0; s < g; s++ {
			id := k*10 + s + 1
			sent[id] = per
			wg.Add(1)
			go func(id int) {
				defer wg.Done()
				<-gate
				for q := 1; q <= per; q++ {
					a.sys.Tell(ref, vfNewNetMsg(id, q, 16, false))
				}
			}(id)
		}
		close(gate)
		wg.Wait()
		vfWaitCount(b.sink, int64((k+1)*g*per), 2*time.Second)
		a.obs.mu.Lock()
		estab += a.obs.estab
		a.obs.mu.Unlock()
		if err := a.stop(); err != nil {
			add("c11-stop", "Stop", "sending system of round %d: %v", k, err)
		}
		if len(viols) > 0 {
			// one witness is enough (a Stop that runs into its 40 s bound in every round would otherwise take hours); judge what
			// was sent so far
			for id := range sent {
				if id/10 > k {
					delete(sent, id)
				}
			}
			c.FirstContacts = k + 1
			break
		}
		// the per-round check: order and exactly-once must hold from the very first message on
		var early []vfViol
		vfCheckStream(b.sink.snapshot(), sent, false, func(kind, key, f string, a ...any) {
			early = append(early, vfViol{kind, key, fmt.Sprintf(f, a...)})
		})
		if len(early) > 0 {
			viols = append(viols, early[0])
			c.FirstContacts = k + 1
			break
		}
	}
	total := int64(c.FirstContacts * g * per)
	ok := vfWaitCount(b.sink, total, 5*time.Second)
	maxStall := stall.end()
	vfCheckStream(b.sink.snapshot(), sent, !ok, add)
	// (more than one connection per address is only recorded, not judged: the property speaks of order and exactly-once)
	info = fmt.Sprintf("received=%d/%d first_contacts=%d connections_established=%d max_stall=%v", b.sink.n.Load(), total, c.FirstContacts, estab, maxStall)
	if maxStall > time.Second && len(viols) > 0 {
		inconclusive = fmt.Sprintf("scheduler stall of %v during the run: %v", maxStall, viols[0].Detail)
		viols = nil
	}
	if err := b.stop(); err != nil {
		add("c11-stop", "Stop", "system B: %v", err)
	}
	return
}

func vfRunStream(c vfStreamCase, seed uint64) (viols []vfViol, info string, inconclusive string) {
	if c.FirstContacts > 0 {
		return vfRunFirstContact(c, seed)
	}
	add := func(kind, key, f string, a ...any) {
		for _, v := range viols {
			if v.Kind == kind {
				return
			}
		}
		viols = append(viols, vfViol{kind, key, fmt.Sprintf(f, a...)})
	}
	stall := vfStartStall()
	bindB := vfFreeAddr()
	px, err := vfNewProxy(bindB, seed)
	if err != nil {
		return nil, "", "proxy: " + err.Error()
	}
	defer px.close()
	px.setMode(c.Plan)
	addrA := vfFreeAddr()
	a, err := vfStartNode(addrA, addrA)
	if err != nil {
		return nil, "", "start A: " + err.Error()
	}
	b, err := vfStartNode(bindB, px.addr) // B advertises the proxy: A dials the proxy
	if err != nil {
		_ = a.stop()
		return nil, "", "start B: " + err.Error()
	}
	toB := b.remoteSink(a)
	toA := a.remoteSink(b)
	sent := map[int]int{}
	var wg sync.WaitGroup
	if c.StopAfter {
		// the property speaks of messages Told over a healthy connection: establish it first (a Tell that still has to
		// dial when Stop begins is reported as a dead letter on the sender, it is not lost silently)
		a.sys.Tell(toB, vfNewNetMsg(99, 1, 10, false))
		sent[99] = 1
		if !vfWaitCount(b.sink, 1, 3*time.Second) {
			return nil, "", "primer message did not arrive"
		}
	}
	per := c.Burst / c.Senders
	for s := 0; s < c.Senders; s++ {
		n := per
		if s < c.Burst%c.Senders {
			n++
		}
		sent[s+1] = n
		wg.Add(1)
		go func(s, n int) {
			defer wg.Done()
			for q := 1; q <= n; q++ {
				if c.Unsendable > 0 && q == n/2+1 {
					for u := 0; u < c.Unsendable; u++ {
						if (u+s)%2 == 0 {
							a.sys.Tell(toB, vfNewNetMsg(7000+s, u+1, 5<<20, false)) // cannot be framed
						} else {
							a.sys.Tell(toB, &vfUnregistered{X: u}) // cannot be encoded
						}
					}
				}
				a.sys.Tell(toB, vfNewNetMsg(s, q, c.Sizes[(q+s)%len(c.Sizes)], false))
				if c.Gap > 0 {
					time.Sleep(c.Gap)
				}
			}
		}(s+1, n)
	}
	sentBack := map[int]int{}
	if c.Back > 0 {
		sentBack[100] = c.Back
		wg.Add(1)
		go func() {
			defer wg.Done()
			for q := 1; q <= c.Back; q++ {
				b.sys.Tell(toA, vfNewNetMsg(100, q, c.Sizes[q%len(c.Sizes)], false))
			}
		}()
	}
	// asks
	type askRes struct {
		seq int
		rep *vfNetReply
		err error
	}
	askOut := make(chan askRes, c.Asks)
	for i := 1; i <= c.Asks; i++ {
		wg.Add(1)
		go func(i int) {
			defer wg.Done()
			m := vfNewNetMsg(900+i, 1, c.Sizes[i%len(c.Sizes)], true) // each Ask is its own sender: concurrent Asks have no order
			v, err := a.sys.Ask(toB, m, 20*time.Second).Result()
			r, _ := v.(*vfNetReply)
			askOut <- askRes{i, r, err}
		}(i)
	}
	for i := 1; i <= c.Asks; i++ {
		sent[900+i] = 1
	}
	wg.Wait()
	stoppedA := false
	if c.StopAfter {
		stoppedA = true
		if err := a.stop(); err != nil {
			add("c11-stop", "Stop", "system A: %v", err)
		}
	}
	total := int64(c.Burst + c.Asks + sent[99])
	okB := vfWaitCount(b.sink, total, 5*time.Second)
	okA := vfWaitCount(a.sink, int64(c.Back), 5*time.Second)
	maxStall := stall.end()
	close(askOut)
	// oracle
	vfCheckStream(b.sink.snapshot(), sent, !okB, add)
	vfCheckStream(a.sink.snapshot(), sentBack, !okA, add)
	for r := range askOut {
		switch {
		case r.err != nil:
			add("c11-ask-failed", "Ask", "Ask #%d over a healthy link failed: %v", r.seq, r.err)
		case r.rep == nil || int(r.rep.Sender) != 900+r.seq || r.rep.Seq != 1:
			add("c11-foreign-reply", "Ask", "Ask #%d completed with %+v (want its own reply: Reply must reach the original sender)", r.seq, r.rep)
		}
	}
	for _, n := range []*vfNode{a, b} {
		n.obs.mu.Lock()
		if len(n.obs.decode) > 0 {
			add("c11-decode-failed", "RemotingMessageDecodeFailedEvent", "%d decode failure(s) on a healthy link: %v", len(n.obs.decode), n.obs.decode[:1])
		}
		var dls []string
		unsendable := 0
		for _, d := range n.obs.dl {
			if c.Unsendable > 0 && n == a && (strings.HasPrefix(d, "vfNetMsg#70") || strings.Contains(d, "vfUnregistered")) {
				unsendable++ // the messages that cannot be put on the wire: reported on the sender, as they must be
				continue
			}
			dls = append(dls, d)
		}
		if len(dls) > 0 {
			add("c11-dead-letter", "DeathLetterEvent", "%d dead letter(s) for valid messages on a healthy link: %v", len(dls), dls[:minInt(3, len(dls))])
		}
		if n == a && c.Unsendable > 0 && unsendable != c.Unsendable*c.Senders {
			add("c11-unsendable-not-reported", "DeathLetterEvent", "%d messages that cannot be put on the wire were Told, %d dead letters for them on the sender", c.Unsendable*c.Senders, unsendable)
		}
		n.obs.mu.Unlock()
	}
	a.obs.mu.Lock()
	closedA := len(a.obs.closed)
	a.obs.mu.Unlock()
	b.obs.mu.Lock()
	closedB := len(b.obs.closed)
	b.obs.mu.Unlock()
	info = fmt.Sprintf("received=%d/%d back=%d/%d proxied_bytes=%d connections=%d closed_events=%d max_stall=%v", b.sink.n.Load(), total, a.sink.n.Load(), c.Back, px.fwd.Load(), px.accepted.Load(), closedA+closedB, maxStall)
	if maxStall > time.Second && len(viols) > 0 {
		inconclusive = fmt.Sprintf("scheduler stall of %v during the run: %v", maxStall, viols[0].Detail)
		viols = nil
	}
	if !stoppedA {
		if err := a.stop(); err != nil {
			add("c11-stop", "Stop", "system A: %v", err)
		}
	}
	if err := b.stop(); err != nil {
		add("c11-stop", "Stop", "system B: %v", err)
	}
	return
}

func vfStreamCases(thorough bool) []vfStreamCase {
	small := []int{0, 1, 100, 4095, 4096, 4097}
	var cs []vfStreamCase
	for _, plan := range []string{"asis", "1byte", "splits", "coalesce"} {
		cs = append(cs,
			vfStreamCase{Plan: plan, Burst: 1, Senders: 1, Sizes: []int{100}},
			vfStreamCase{Plan: plan, Burst: 2, Senders: 1, Sizes: []int{0, 1}},
			vfStreamCase{Plan: plan, Burst: 10, Senders: 2, Sizes: small, Back: 5, Asks: 3},
			vfStreamCase{Plan: plan, Burst: 1000, Senders: 4, Sizes: []int{0, 1, 100, 700}, Back: 200, Asks: 20},
		)
	}
	cs = append(cs,
		vfStreamCase{Plan: "asis", Burst: 6, Senders: 1, Sizes: []int{65536, 1 << 20, 4<<20 - 300}},
		vfStreamCase{Plan: "splits", Burst: 4, Senders: 2, Sizes: []int{65536, 1 << 20}, Asks: 2},
		vfStreamCase{Plan: "coalesce", Burst: 3000, Senders: 8, Sizes: []int{0, 7, 64}, Back: 500},
		vfStreamCase{Plan: "asis", Burst: 5000, Senders: 8, Sizes: []int{0, 7, 64, 300}, Back: 1000, Asks: 50},
		// Tell ... Tell, Stop: what was Told over the healthy link before Stop still arrives, completely and in order
		vfStreamCase{Plan: "asis", Burst: 1, Senders: 1, Sizes: []int{100}, StopAfter: true},
		vfStreamCase{Plan: "asis", Burst: 500, Senders: 2, Sizes: []int{0, 100, 4096}, StopAfter: true},
		vfStreamCase{Plan: "splits", Burst: 3000, Senders: 4, Sizes: []int{7, 64, 300}, StopAfter: true},
		// messages that cannot be put on the wire in the middle of bursts: the valid ones around and behind them arrive
		vfStreamCase{Plan: "asis", Burst: 400, Senders: 2, Sizes: []int{0, 100, 4096}, Unsendable: 1},
		vfStreamCase{Plan: "splits", Burst: 1200, Senders: 4, Sizes: []int{7, 64, 300, 1 << 20}, Unsendable: 3, Back: 50},
		// concurrent first contact: 8 goroutines start talking to a new address at the same moment, 150 addresses
		vfStreamCase{Plan: "asis", FirstContacts: 150, Burst: 150 * 32, Senders: 8, Sizes: []int{16}},
		vfStreamCase{Plan: "asis", FirstContacts: 150, Burst: 150*32 + 1, Senders: 8, Sizes: []int{16}},
	)
	if thorough {
		for _, plan := range []string{"asis", "splits", "coalesce"} {
			cs = append(cs, vfStreamCase{Plan: plan, Burst: 20000, Senders: 8, Sizes: []int{0, 1, 100, 4096}, Back: 5000, Asks: 100})
		}
		cs = append(cs,
			vfStreamCase{Plan: "1byte", Burst: 2000, Senders: 3, Sizes: []int{0, 1, 100}, Back: 100, Asks: 10},
			vfStreamCase{Plan: "1byte", Burst: 2, Senders: 1, Sizes: []int{65536}},
			// steady stream across the 10 s and 20 s marks (handshake deadlines, D16)
			vfStreamCase{Plan: "asis", Burst: 2600, Senders: 1, Sizes: []int{100}, Gap: 10 * time.Millisecond, Back: 50},
			vfStreamCase{Plan: "splits", Burst: 1300, Senders: 1, Sizes: []int{100, 4096}, Gap: 20 * time.Millisecond},
			// high-rate stream across the 10 s mark: a teardown at that moment loses what is in flight
			vfStreamCase{Plan: "asis", Burst: 100000, Senders: 2, Sizes: []int{100, 3000}, Gap: 200 * time.Microsecond},
		)
	}
	return cs
}

func TestVerif_remotestream(t *testing.T) {
	R := verifrt.NewReport("remotestream", "pairs of real systems on loopback TCP, B reached through an in-harness proxy that never drops but re-segments the byte stream (as is / 1-byte writes / PRNG splits / coalesce-everything); bursts of 1..5 000 (thorough 20 000, plus a 26 s steady stream) with payloads 0 B .. 4 MiB-300 (the frame, not the payload, is limited to 4 MiB), 1-8 concurrent senders, traffic in both directions at once, concurrent Asks whose replies must carry the asker's id; 'Tell ... Tell; Stop' over an established connection (everything Told before Stop arrives); messages that cannot be put on the wire (5 MiB payload, unregistered type) in the middle of bursts - the valid ones queued around them must arrive, the others are dead-lettered on the sender; 2 x 150 fresh sending systems whose 8 goroutines contact the peer for the first time at the same moment; per-(sender) sequence/CRC monitor at the receiving actors (gap with a later message seen = loss; duplicate; reorder; checksum), event observers on both systems (decode failures, dead letters), completion awaited until 5 s without progress, stall-gated. non-trivial+distinct = distinct cases in which >= 2 messages crossed the proxy")
	defer R.Flush()
	cases := vfStreamCases(verifrt.Thorough())
	only := verifrt.EnvInt("VERIF_CASE", -1)
	for ci, c := range cases {
		if !verifrt.Mine(ci) || (only >= 0 && only != ci) {
			continue
		}
		R.Journal(ci, c.String())
		viols, info, inc := vfRunStream(c, verifrt.CaseSeed("remotestream", ci))
		if inc != "" && len(viols) == 0 {
			// one isolated retry before giving up
			viols, info, inc = vfRunStream(c, verifrt.CaseSeed("remotestream", ci)+1)
		}
		R.Eval()
		if inc != "" {
			R.Inconcl(fmt.Sprintf("case %d (%s): %s", ci, c, inc))
		}
		for _, v := range viols {
			R.Violate(ci, v.Kind, v.Key, v.Detail+" | case: "+c.String()+" | "+info, map[string]any{"case": c.String()})
		}
		if c.Burst+c.Asks+c.Back >= 2 && inc == "" {
			R.Nontrivial(c.String())
		}
		R.Obs("messages_sent", int64(c.Burst+c.Back+c.Asks))
		if ci%5 == 0 {
			R.Sample(map[string]any{"case": c.String(), "observed": info})
		}
	}
	_ = sort.Ints
	_ = vivid.ErrorNotFound
}
