//go:build verif

package actor

import (
	"fmt"
	"sort"
	"strings"
	"sync"
	"testing"
	"time"

	"github.com/kercylan98/vivid"
	"github.com/kercylan98/vivid/internal/verifrt"
)

// C06 — watchnet: "its parent and every actor watching it receive exactly one OnKilled for it" when the watchers live on
// several systems. Three real systems A, B, C on loopback; the target lives on A. Watchers: on every system one actor
// under the SAME path (/mon - the symmetric deployment), plus one under a distinct path per system. Scenarios vary who
// watches (in which order), who unwatches again before the kill, double Watch, and how the target dies (Kill / poison /
// killed by its own parent's termination). Oracle: every watcher whose Watch was in force at the kill gets exactly one
// OnKilled whose Ref designates the target, everybody else none; decided on the recorded notices after the logs have
// been quiet (logical completion: expected notices arrived, then a grace period for surplus ones).

type vfWNWatcher struct {
	mu      sync.Mutex
	notices []string // "<addr>|<path>" of OnKilled.Ref
	ready   chan struct{}
	once    sync.Once
}

type vfWNCmd struct {
	Op     string // watch | unwatch
	Target vivid.ActorRef
	Done   chan struct{}
}

func (a *vfWNWatcher) OnReceive(ctx vivid.ActorContext) {
	switch m := ctx.Message().(type) {
	case *vivid.OnLaunch:
		a.once.Do(func() { close(a.ready) })
	case *vfWNCmd:
		if m.Op == "watch" {
			ctx.Watch(m.Target)
		} else {
			ctx.Unwatch(m.Target)
		}
		close(m.Done)
	case *vivid.OnKilled:
		if m.Ref != nil && !m.Ref.Equals(ctx.Ref()) {
			a.mu.Lock()
			a.notices = append(a.notices, m.Ref.GetAddress()+"|"+m.Ref.GetPath())
			a.mu.Unlock()
		}
	}
}

type vfWNStep struct {
	Who string // "A/mon" "B/mon" "C/mon" "A/wa" "B/wb" "C/wc"
	Op  string // watch | unwatch
}

type vfWNCase struct {
	Name  string
	Steps []vfWNStep
	Death string // kill | poison | parent
	// WatchRoot: before the steps a local and a remote actor also Watch the ROOT actor of system A (an actor like any other
	// as far as Watch is concerned; it terminates last, when the system stops)
	WatchRoot bool
}

func (c vfWNCase) String() string {
	var s []string
	for _, st := range c.Steps {
		s = append(s, st.Who+"."+st.Op)
	}
	return fmt.Sprintf("%s: %s ; target dies by %s", c.Name, strings.Join(s, " "), c.Death)
}

func vfWNCases() []vfWNCase {
	w := func(who string) vfWNStep { return vfWNStep{who, "watch"} }
	u := func(who string) vfWNStep { return vfWNStep{who, "unwatch"} }
	base := []vfWNCase{
		{Name: "same path on three systems, local first", Steps: []vfWNStep{w("A/mon"), w("B/mon"), w("C/mon")}},
		{Name: "same path on three systems, remote first", Steps: []vfWNStep{w("C/mon"), w("B/mon"), w("A/mon")}},
		{Name: "two remote systems, same path", Steps: []vfWNStep{w("B/mon"), w("C/mon")}},
		{Name: "same path + distinct paths", Steps: []vfWNStep{w("A/mon"), w("B/wb"), w("B/mon"), w("C/wc"), w("A/wa")}},
		{Name: "one of the same-path watchers unwatches (remote)", Steps: []vfWNStep{w("A/mon"), w("B/mon"), w("C/mon"), u("B/mon")}},
		{Name: "one of the same-path watchers unwatches (local)", Steps: []vfWNStep{w("A/mon"), w("B/mon"), u("A/mon")}},
		{Name: "unwatch by a same-path actor that never watched", Steps: []vfWNStep{w("B/mon"), u("C/mon"), u("A/mon")}},
		{Name: "double watch from two systems", Steps: []vfWNStep{w("B/mon"), w("B/mon"), w("C/mon"), w("C/mon"), w("A/wa"), w("A/wa")}},
		{Name: "watch, unwatch, watch again", Steps: []vfWNStep{w("B/mon"), u("B/mon"), w("B/mon"), w("C/wc"), u("C/wc")}},
		{Name: "nobody watches", Steps: nil},
		{Name: "the root actor is watched too", Steps: []vfWNStep{w("A/mon"), w("B/mon")}, WatchRoot: true},
	}
	var cs []vfWNCase
	for i, b := range base {
		for j, d := range []string{"kill", "poison", "parent"} {
			if (i+j)%3 == 0 || i < 5 { // every base case with at least one way of dying, the first five with all three
				c := b
				c.Death = d
				cs = append(cs, c)
			}
		}
	}
	return cs
}

type vfWNParent struct {
	child vivid.Actor
	ref   chan vivid.ActorRef
}

func (p *vfWNParent) OnReceive(ctx vivid.ActorContext) {
	if _, ok := ctx.Message().(*vivid.OnLaunch); ok {
		r, err := ctx.ActorOf(p.child, vivid.WithActorName("target"))
		if err != nil {
			close(p.ref)
			return
		}
		p.ref <- r
	}
}

func vfRunWatchNet(c vfWNCase) (viols []vfViol, info string, inconclusive string) {
	add := func(kind, key, f string, a ...any) { viols = append(viols, vfViol{kind, key, fmt.Sprintf(f, a...)}) }
	stall := vfStartStall()
	nodes := map[string]*vfNode{}
	for _, name := range []string{"A", "B", "C"} {
		addr := vfFreeAddr()
		n, err := vfStartNode(addr, addr)
		if err != nil {
			for _, x := range nodes {
				_ = x.stop()
			}
			return nil, "", "start " + name + ": " + err.Error()
		}
		nodes[name] = n
	}
	defer func() {
		for _, n := range nodes {
			if err := n.stop(); err != nil {
				viols = append(viols, vfViol{"c07-stop-error", "watchnet", err.Error()})
			}
		}
	}()
	watchers := map[string]*vfWNWatcher{}
	wrefs := map[string]vivid.ActorRef{}
	for _, who := range []string{"A/mon", "B/mon", "C/mon", "A/wa", "B/wb", "C/wc"} {
		p := strings.SplitN(who, "/", 2)
		wa := &vfWNWatcher{ready: make(chan struct{})}
		r, err := nodes[p[0]].sys.ActorOf(wa, vivid.WithActorName(p[1]))
		if err != nil {
			return nil, "", "spawn watcher: " + err.Error()
		}
		<-wa.ready
		watchers[who], wrefs[who] = wa, r
	}
	// the target: child of /tp on A
	par := &vfWNParent{child: &vfSink{}, ref: make(chan vivid.ActorRef, 1)}
	parRef, err := nodes["A"].sys.ActorOf(par, vivid.WithActorName("tp"))
	if err != nil {
		return nil, "", "spawn parent: " + err.Error()
	}
	localTarget, ok := <-par.ref
	if !ok {
		return nil, "", "spawn target failed"
	}
	addrA := nodes["A"].adv
	// the reference each system uses for the target
	targetFor := func(sysName string) vivid.ActorRef {
		if sysName == "A" {
			return localTarget
		}
		r, _ := nodes[sysName].sys.CreateRef(addrA, localTarget.GetPath())
		return r
	}
	if c.WatchRoot {
		rootLocal := nodes["A"].sys.Ref()
		rootRemote, _ := nodes["B"].sys.CreateRef(addrA, "/")
		for who, tgt := range map[string]vivid.ActorRef{"A/wa": rootLocal, "B/wb": rootRemote} {
			sysName := strings.SplitN(who, "/", 2)[0]
			done := make(chan struct{})
			nodes[sysName].sys.Tell(wrefs[who], &vfWNCmd{Op: "watch", Target: tgt, Done: done})
			select {
			case <-done:
			case <-time.After(10 * time.Second):
				return nil, "", "watcher did not handle its command within 10 s"
			}
		}
		time.Sleep(100 * time.Millisecond)
		if _, err := nodes["B"].sys.Ping(targetFor("B"), 10*time.Second); err != nil {
			add("c06-watch-root-disturbs-system", "Watch(root)", "after Watch(root of A) from a local and a remote actor a Ping to an actor on A fails: %v", err)
		}
	}
	inForce := map[string]bool{}
	for _, st := range c.Steps {
		sysName := strings.SplitN(st.Who, "/", 2)[0]
		done := make(chan struct{})
		nodes[sysName].sys.Tell(wrefs[st.Who], &vfWNCmd{Op: st.Op, Target: targetFor(sysName), Done: done})
		select {
		case <-done:
		case <-time.After(10 * time.Second):
			return nil, "", "watcher did not handle its command within 10 s"
		}
		inForce[st.Who] = st.Op == "watch"
		// the Watch / Unwatch message itself travels asynchronously: let it arrive before the next step and before the kill.
		// Logical wait: a Ping through the same connection (same per-address FIFO) returns after the message was delivered.
		if sysName != "A" {
			if _, err := nodes[sysName].sys.Ping(targetFor(sysName), 10*time.Second); err != nil {
				return nil, "", "ping after " + st.Op + ": " + err.Error()
			}
		} else {
			time.Sleep(20 * time.Millisecond)
		}
	}
	time.Sleep(50 * time.Millisecond)
	switch c.Death {
	case "kill":
		nodes["A"].sys.Kill(localTarget, false, "vf-watchnet")
	case "poison":
		nodes["A"].sys.Kill(localTarget, true, "vf-watchnet")
	case "parent":
		nodes["A"].sys.Kill(parRef, false, "vf-watchnet")
	}
	want := 0
	for _, v := range inForce {
		if v {
			want++
		}
	}
	total := func() int {
		n := 0
		for _, wa := range watchers {
			wa.mu.Lock()
			n += len(wa.notices)
			wa.mu.Unlock()
		}
		return n
	}
	deadline := time.Now().Add(15 * time.Second)
	for total() < want && time.Now().Before(deadline) {
		time.Sleep(10 * time.Millisecond)
	}
	time.Sleep(400 * time.Millisecond) // surplus notices (duplicates, notices to actors that do not watch) get their chance
	maxStall := stall.end()
	wantRef := addrA + "|" + localTarget.GetPath()
	var names []string
	for who := range watchers {
		names = append(names, who)
	}
	sort.Strings(names)
	var obs []string
	for _, who := range names {
		wa := watchers[who]
		wa.mu.Lock()
		got := append([]string(nil), wa.notices...)
		wa.mu.Unlock()
		obs = append(obs, fmt.Sprintf("%s:%d", who, len(got)))
		switch {
		case inForce[who] && len(got) == 0:
			add("c06-watcher-notice-count", "missing", "watcher %s (system %s, path %s) watches the target and received no OnKilled for it", who, who[:1], wrefs[who].GetPath())
		case inForce[who] && len(got) > 1:
			add("c06-watcher-notice-count", "duplicate", "watcher %s received %d OnKilled notices for the target: %v", who, len(got), got)
		case !inForce[who] && len(got) > 0:
			add("c06-unregistered-watcher-notified", "surplus", "%s does not watch the target (never did, or unwatched) and received %v", who, got)
		}
		for _, g := range got {
			if g != wantRef {
				add("c06-watcher-notice-wrong-ref", "ref", "watcher %s: OnKilled names %s, the terminated actor is %s", who, g, wantRef)
			}
		}
	}
	info = fmt.Sprintf("notices %s want_total=%d max_stall=%v", strings.Join(obs, " "), want, maxStall)
	if maxStall > time.Second && len(viols) > 0 {
		inconclusive = fmt.Sprintf("scheduler stall of %v: %s", maxStall, viols[0].Detail)
		viols = nil
	}
	return
}

func TestVerif_watchnet(t *testing.T) {
	R := verifrt.NewReport("watchnet", "three real systems on loopback TCP, the target on the first; on every system one watcher under the same path (/mon) and one under a distinct path; scenarios over who watches in which order, who unwatches again (incl. an Unwatch by a same-path actor that never watched), double Watch, watch-unwatch-watch, and how the target dies (Kill, poison Kill, termination of its parent). Oracle over the recorded notices: every watcher whose Watch is in force gets exactly one OnKilled whose Ref designates the target, all others none. non-trivial+distinct = scenarios that ran to their end")
	defer R.Flush()
	cases := vfWNCases()
	only := verifrt.EnvInt("VERIF_CASE", -1)
	for ci, c := range cases {
		if !verifrt.Mine(ci) || (only >= 0 && only != ci) {
			continue
		}
		R.Journal(ci, c.String())
		viols, info, inc := vfRunWatchNet(c)
		if inc != "" && len(viols) == 0 {
			viols, info, inc = vfRunWatchNet(c) // one isolated retry
		}
		R.Eval()
		if inc != "" {
			R.Inconcl(fmt.Sprintf("case %d (%s): %s", ci, c, inc))
			continue
		}
		for _, v := range viols {
			R.Violate(ci, v.Kind, v.Key, v.Detail+" | case: "+c.String()+" | "+info, map[string]any{"case": c.String()})
		}
		R.Nontrivial(c.String())
		R.Obs("scenarios_death_"+c.Death, 1)
		if ci%6 == 0 {
			R.Sample(map[string]any{"case": c.String(), "observed": info})
		}
	}
}
