//go:build verif

package actor

import (
	"fmt"
	"strings"
	"sync"
	"testing"
	"testing/synctest"
	"time"

	"github.com/kercylan98/vivid"
	"github.com/kercylan98/vivid/internal/verifrt"
	"github.com/kercylan98/vivid/pkg/log"
)

// C07 — oddnames: "Stop terminates every actor, returns within its timeout ... on systems with any actor tree", for trees
// whose actors were spawned under unusual names (dot segments, slashes, colons, spaces, percent escapes, very long names,
// the empty name). Spawning may be refused; if it succeeds the new actor must be a proper, distinct descendant of its
// parent - it must not take the place of the root, of its parent or of a sibling in the path table - and Stop must then
// terminate everything within its timeout. Virtual time.

var vfOddNames = []string{".", "..", "x/..", "a/../b", "./a", "a/.", "a//b", "/abs", "a/b/c", "../up", "a:b", "a::b", " a", "a ", "%2e%2e", "%2F", "a%20b", "~", "@future@x", "sib", "sib/..", strings.Repeat("n", 300), "ünï", "a?b", "a#b"}

type vfOddParent struct {
	name string
	mu   *sync.Mutex
	res  *[]string
	ref  *vivid.ActorRef
	err  *error
}

func (p *vfOddParent) OnReceive(ctx vivid.ActorContext) {
	if _, ok := ctx.Message().(*vivid.OnLaunch); ok {
		_, _ = ctx.ActorOf(vivid.ActorFN(func(vivid.ActorContext) {}), vivid.WithActorName("sib"))
		r, err := ctx.ActorOf(vivid.ActorFN(func(vivid.ActorContext) {}), vivid.WithActorName(p.name))
		p.mu.Lock()
		*p.ref, *p.err = r, err
		p.mu.Unlock()
	}
}

func vfRunOddName(name string, underChild bool) (viols []vfViol, note string) {
	add := func(kind, key, f string, a ...any) { viols = append(viols, vfViol{kind, key, fmt.Sprintf(f, a...)}) }
	sys := NewSystem(vivid.WithActorSystemLogger(log.NewSilentLogger()))
	if err := sys.Start(); err != nil {
		add("harness-error", "start", "%v", err)
		return
	}
	var mu sync.Mutex
	var ref vivid.ActorRef
	var err error
	parentPath := "/"
	if underChild {
		parentPath = "/par"
		var res []string
		if _, e := sys.ActorOf(&vfOddParent{name: name, mu: &mu, res: &res, ref: &ref, err: &err}, vivid.WithActorName("par")); e != nil {
			add("harness-error", "spawn", "%v", e)
		}
	} else {
		_, _ = sys.ActorOf(vivid.ActorFN(func(vivid.ActorContext) {}), vivid.WithActorName("sib"))
		ref, err = sys.ActorOf(vivid.ActorFN(func(vivid.ActorContext) {}), vivid.WithActorName(name))
	}
	synctest.Wait()
	mu.Lock()
	r, e := ref, err
	mu.Unlock()
	key := fmt.Sprintf("%q", name)
	if len(key) > 40 {
		key = key[:40] + "…"
	}
	if e == nil && r != nil {
		note = "spawned as " + r.GetPath()
		prefix := strings.TrimRight(parentPath, "/") + "/"
		if !strings.HasPrefix(r.GetPath(), prefix) || len(r.GetPath()) == len(prefix) {
			add("c07-odd-name-takes-foreign-path", key, "ActorOf(name=%q) under %s succeeded with path %s, which is not below its parent: the new actor takes the place of another one in the path table", name, parentPath, r.GetPath())
		}
	} else {
		note = fmt.Sprintf("refused: %v", e)
	}
	// the root, the parent and the sibling are still themselves in the path table
	for _, p := range []string{"/", parentPath, prefixJoin(parentPath, "sib")} {
		v, ok := sys.actorContexts.Load(p)
		cx, _ := v.(*Context)
		switch {
		case p == "/" && (!ok || cx == nil):
			// the root itself is not kept in the path table
		case !ok || cx == nil:
			add("c07-odd-name-takes-foreign-path", key, "after ActorOf(name=%q) under %s nothing is registered at %s any more", name, parentPath, p)
		case p == "/" && cx != sys.Context:
			add("c07-odd-name-takes-foreign-path", key, "after ActorOf(name=%q) under %s the path / no longer designates the root actor", name, parentPath)
		case r != nil && e == nil && cx.Ref().GetPath() == r.GetPath() && cx.Ref() == r:
			add("c07-odd-name-takes-foreign-path", key, "after ActorOf(name=%q) under %s the path %s designates the new actor", name, parentPath, p)
		}
	}
	t0 := time.Now()
	serr := sys.Stop(2 * time.Second)
	if serr != nil {
		add("c07-stop-error", "odd name "+key, "after ActorOf(name=%q) under %s (%s) Stop(2s) returned %v after %v", name, parentPath, note, serr, time.Since(t0))
	}
	synctest.Wait()
	n := 0
	sys.actorContexts.Range(func(k, v any) bool {
		if _, ok := v.(*Context); ok {
			n++
		}
		return true
	})
	if serr == nil && n > 0 {
		add("c07-actors-alive-after-stop", "odd name "+key, "%d actors still registered after Stop returned nil", n)
	}
	if serr != nil {
		// do not leave the bubble with a live system
		_ = sys.Stop(time.Second)
	}
	return
}

func prefixJoin(parent, name string) string {
	return strings.TrimRight(parent, "/") + "/" + name
}

func TestVerif_oddnames(t *testing.T) {
	R := verifrt.NewReport("oddnames", "enumerated in virtual time: 25 unusual actor names (dot segments, slashes, absolute and escaping paths, colons, spaces, percent escapes, reserved-looking names, a sibling's name, 300 characters, non-ASCII, '?' and '#') x spawned by the system / by an actor from its own handler, next to a sibling. Oracle: ActorOf either refuses the name or yields a path strictly below the parent; parent and sibling can still be found; Stop(2s) then returns nil and nothing stays registered. non-trivial+distinct = cases that ran to their end")
	defer R.Flush()
	only := verifrt.EnvInt("VERIF_CASE", -1)
	ci := -1
	for _, under := range []bool{false, true} {
		for _, name := range vfOddNames {
			ci++
			if !verifrt.Mine(ci) || (only >= 0 && only != ci) {
				continue
			}
			desc := fmt.Sprintf("name=%q spawned-by-actor=%v", name, under)
			if len(desc) > 120 {
				desc = desc[:120] + "…"
			}
			R.Journal(ci, desc)
			var viols []vfViol
			var note string
			hang, stacks, pan := vfBubble(t, 60*time.Second, func() { viols, note = vfRunOddName(name, under) })
			R.Eval()
			if hang {
				viols = append(viols, vfViol{"c07-hang", "bubble", verifrt.Short(stacks, 20000)})
			}
			if pan != nil {
				ps := fmt.Sprint(pan)
				kind := "c07-goroutines-left-after-stop"
				if !strings.Contains(ps, "deadlock") && !strings.Contains(ps, "blocked") {
					kind = "harness-panic"
				}
				viols = append(viols, vfViol{kind, "odd name", verifrt.Short(ps, 3000)})
			}
			for _, v := range viols {
				R.Violate(ci, v.Kind, v.Key, v.Detail+" | case: "+desc, map[string]any{"case": desc})
			}
			R.Nontrivial(desc)
			if strings.HasPrefix(note, "refused") {
				R.Obs("names_refused", 1)
			} else {
				R.Obs("names_accepted", 1)
			}
			if ci%9 == 0 {
				R.Sample(map[string]any{"case": desc, "outcome": verifrt.Short(note, 200), "violations": len(viols)})
			}
			if hang {
				R.Flush()
				t.Fatalf("hang")
			}
		}
	}
	R.Exhaustive = true
}
