//go:build verif

package actor

import (
	"errors"
	"fmt"
	"sort"
	"strings"
	"testing"
	"time"

	"github.com/kercylan98/vivid"
	"github.com/kercylan98/vivid/internal/verifrt"
)

// C20 — exact virtual-instant reference model of Once/Loop/Cron/Cancel/Clear/Kill/restart (DESIGN §4 C20).

type vfSchedOp struct {
	At       time.Duration // virtual instant of the step (relative to start)
	Owner    string
	Op       string // once | loop | cron | badcron | cancel | cancelunknown | clear | kill | fail
	Ref      string
	D        time.Duration
	Cron     string
	Receiver string // actor name, or "dead"
	MsgID    int
	Poison   bool
}

func (o vfSchedOp) String() string {
	switch o.Op {
	case "once", "loop":
		return fmt.Sprintf("@%v %s.%s(%s,%v)->%s#%d", o.At, o.Owner, o.Op, o.Ref, o.D, o.Receiver, o.MsgID)
	case "cron", "badcron":
		return fmt.Sprintf("@%v %s.cron(%s,%q)->%s#%d", o.At, o.Owner, o.Ref, o.Cron, o.Receiver, o.MsgID)
	case "cancel", "cancelunknown":
		return fmt.Sprintf("@%v %s.cancel(%s)", o.At, o.Owner, o.Ref)
	}
	return fmt.Sprintf("@%v %s.%s", o.At, o.Owner, o.Op)
}

// commands executed inside the owner's handler (the Scheduler is not concurrency-safe by contract)
type vfSchedCmd struct {
	Op  vfSchedOp
	Msg *vfSched
}

var vfBadCrons = []string{"", " ", "* * *", "abc", "* * * * * * * * *", "61 * * * * *", "* 61 * * * *", "* * 25 * * *", "a b c d e f", "*/x * * * * *", "1-", "?? ?? ??", "0 0 0 32 * *", "0 0 0 * 13 *", "-1 * * * * *"}

func (a *vfActor) execSched(ctx vivid.ActorContext, c *vfSchedCmd) {
	w := a.w
	o := c.Op
	var err error
	recv := ctx.Ref()
	if o.Receiver != "" && o.Receiver != o.Owner {
		if r := w.ref(o.Receiver); r != nil {
			recv = r
		}
	}
	switch o.Op {
	case "once":
		err = ctx.Scheduler().Once(recv, o.D, c.Msg, vivid.WithSchedulerReference(o.Ref))
	case "loop":
		err = ctx.Scheduler().Loop(recv, o.D, c.Msg, vivid.WithSchedulerReference(o.Ref))
	case "cron", "badcron":
		err = ctx.Scheduler().Cron(recv, o.Cron, c.Msg, vivid.WithSchedulerReference(o.Ref), vivid.WithScheduleLocation(time.UTC))
		if o.Op == "badcron" {
			switch {
			case err == nil:
				w.add(vfEv{Kind: "api", Path: ctx.Ref().GetPath(), Msg: "viol:c20-invalid-cron-accepted", ID: -1, Aux: fmt.Sprintf("Cron(%q) returned nil", o.Cron)})
			case !errors.Is(err, vivid.ErrorCronParse):
				w.add(vfEv{Kind: "api", Path: ctx.Ref().GetPath(), Msg: "viol:c20-invalid-cron-wrong-error", ID: -1, Aux: fmt.Sprintf("Cron(%q) returned %v, want ErrorCronParse", o.Cron, err)})
			}
			if ctx.Scheduler().Exists(o.Ref) {
				w.add(vfEv{Kind: "api", Path: ctx.Ref().GetPath(), Msg: "viol:c20-invalid-cron-registered", ID: -1, Aux: fmt.Sprintf("Exists(%s) is true after a rejected Cron(%q)", o.Ref, o.Cron)})
			}
			return
		}
	case "cancel":
		err = ctx.Scheduler().Cancel(o.Ref)
		if ctx.Scheduler().Exists(o.Ref) {
			w.add(vfEv{Kind: "api", Path: ctx.Ref().GetPath(), Msg: "viol:c20-exists-after-cancel", ID: -1, Aux: o.Ref})
		}
		return
	case "cancelunknown":
		err = ctx.Scheduler().Cancel(o.Ref)
		if err == nil || !errors.Is(err, vivid.ErrorNotFound) {
			w.add(vfEv{Kind: "api", Path: ctx.Ref().GetPath(), Msg: "viol:c20-cancel-unknown", ID: -1, Aux: fmt.Sprintf("Cancel(%q) of an unknown reference returned %v, want ErrorNotFound", o.Ref, err)})
		}
		return
	case "clear":
		ctx.Scheduler().Clear()
		return
	}
	if err != nil {
		w.add(vfEv{Kind: "api", Path: ctx.Ref().GetPath(), Msg: "viol:c20-schedule-error", ID: -1, Aux: fmt.Sprintf("%s returned %v", o, err)})
	} else if !ctx.Scheduler().Exists(o.Ref) {
		w.add(vfEv{Kind: "api", Path: ctx.Ref().GetPath(), Msg: "viol:c20-not-registered", ID: -1, Aux: fmt.Sprintf("Exists(%s) is false right after %s", o.Ref, o)})
	}
}

// launch loops: owner -> interval of a Loop job the owner schedules from OnLaunch in every incarnation (message id 9000+i)
func vfGenSchedProgram(rng *verifrt.Rand) (owners []string, prog []vfSchedOp, launchLoop map[string]time.Duration) {
	no := 1 + rng.Intn(3)
	launchLoop = map[string]time.Duration{}
	for i := 0; i < no; i++ {
		owners = append(owners, fmt.Sprintf("o%d", i))
		if rng.Chance(40) {
			launchLoop[owners[i]] = []time.Duration{100 * time.Millisecond, 333 * time.Millisecond}[rng.Intn(2)]
		}
	}
	delays := []time.Duration{1, time.Microsecond, time.Millisecond, 10 * time.Millisecond, 100 * time.Millisecond, 500 * time.Millisecond, 2 * time.Second, time.Hour}
	intervals := []time.Duration{7 * time.Millisecond, 50 * time.Millisecond, 100 * time.Millisecond, 333 * time.Millisecond, time.Second, time.Hour}
	crons := []string{"0/2 * * * * *", "0/1 * * * * *", "1/3 * * * * *"}
	instants := []time.Duration{0, 0, 5 * time.Millisecond, 50 * time.Millisecond, 100 * time.Millisecond, 107 * time.Millisecond, 200 * time.Millisecond, 500 * time.Millisecond, 666 * time.Millisecond, time.Second, 1500 * time.Millisecond, 2 * time.Second}
	nsteps := 3 + rng.Intn(28)
	refn := 0
	msgn := 0
	type live struct {
		owner, ref string
		op         vfSchedOp
	}
	var lives []live
	for i := 0; i < nsteps; i++ {
		o := vfSchedOp{At: instants[rng.Intn(len(instants))], Owner: owners[rng.Intn(len(owners))]}
		r := rng.Intn(100)
		pickRecv := func() string {
			switch x := rng.Intn(10); {
			case x < 6:
				return o.Owner
			case x < 9:
				return owners[rng.Intn(len(owners))]
			}
			return "dead"
		}
		switch {
		case r < 25:
			refn++
			msgn++
			o.Op, o.Ref, o.D, o.Receiver, o.MsgID = "once", fmt.Sprintf("r%d", refn), delays[rng.Intn(len(delays))], pickRecv(), msgn
			if rng.Chance(15) && len(lives) > 0 { // same reference string on a different actor
				if l := lives[rng.Intn(len(lives))]; l.owner != o.Owner {
					o.Ref = l.ref
				}
			}
		case r < 50:
			refn++
			msgn++
			o.Op, o.Ref, o.D, o.Receiver, o.MsgID = "loop", fmt.Sprintf("r%d", refn), intervals[rng.Intn(len(intervals))], pickRecv(), msgn
		case r < 58:
			refn++
			msgn++
			o.Op, o.Ref, o.Cron, o.Receiver, o.MsgID = "cron", fmt.Sprintf("r%d", refn), crons[rng.Intn(len(crons))], o.Owner, msgn
		case r < 66:
			refn++
			msgn++
			o.Op, o.Ref, o.Cron, o.Receiver, o.MsgID = "badcron", fmt.Sprintf("b%d", refn), vfBadCrons[rng.Intn(len(vfBadCrons))], o.Owner, msgn
		case r < 82:
			if len(lives) == 0 {
				o.Op, o.Ref = "cancelunknown", "nope"
				break
			}
			l := lives[rng.Intn(len(lives))]
			o.Op, o.Owner, o.Ref = "cancel", l.owner, l.ref
			// aim at a firing instant now and then (tie)
			if rng.Chance(40) && (l.op.Op == "once" || l.op.Op == "loop") {
				k := time.Duration(1 + rng.Intn(3))
				if l.op.Op == "once" {
					k = 1
				}
				o.At = l.op.At + k*l.op.D
				if rng.Chance(50) {
					o.At += time.Duration(rng.Intn(3)-1) * time.Millisecond
				}
				if o.At < l.op.At {
					o.At = l.op.At
				}
				if o.At > 3*time.Second {
					o.At = 3 * time.Second
				}
			} else if o.At < l.op.At {
				o.At = l.op.At
			}
		case r < 86:
			o.Op, o.Ref = "cancelunknown", fmt.Sprintf("unknown%d", i)
		case r < 90:
			o.Op = "clear"
		case r < 95:
			o.Op, o.Poison = "kill", rng.Bool()
		default:
			o.Op = "fail"
		}
		if o.Op == "once" || o.Op == "loop" || o.Op == "cron" {
			dup := false
			for _, l := range lives { // lives keeps every job ever created: a reference is never re-used on the same actor
				if l.owner == o.Owner && l.ref == o.Ref {
					dup = true // re-using a reference on the same actor is unspecified: avoid it
				}
			}
			if dup {
				continue
			}
			lives = append(lives, live{o.Owner, o.Ref, o})
		}
		prog = append(prog, o)
	}
	sort.SliceStable(prog, func(i, j int) bool { return prog[i].At < prog[j].At })
	return
}

type vfFire struct {
	recv string
	id   int
	at   time.Duration
}

// vfSchedModel returns required and allowed firings: job -> instants.
func vfSchedModel(owners []string, prog []vfSchedOp, launchLoop map[string]time.Duration, horizon time.Duration) (required, allowed map[int][]time.Duration, recvOf map[int]string) {
	required, allowed, recvOf = map[int][]time.Duration{}, map[int][]time.Duration{}, map[int]string{}
	// launch loops: (re)started at every incarnation, cleared by Clear / restart / kill
	for oi, o := range owners {
		iv, ok := launchLoop[o]
		if !ok {
			continue
		}
		id := 9000 + oi
		recvOf[id] = o
		// walk the owner's timeline: the job runs from each (re)launch until the next clear / restart / kill
		type seg struct{ from, to time.Duration }
		var segs []seg
		running, from := true, time.Duration(0)
		for _, p := range prog {
			if p.Owner != o {
				continue
			}
			switch p.Op {
			case "fail": // restart: Clear, then OnLaunch schedules it again at the same instant
				if running {
					segs = append(segs, seg{from, p.At})
				}
				running, from = true, p.At
			case "clear":
				if running {
					segs = append(segs, seg{from, p.At})
				}
				running = false
			case "kill":
				if running {
					segs = append(segs, seg{from, p.At})
				}
				running = false
			}
			if p.Op == "kill" {
				break
			}
		}
		killedOwner := false
		for _, p := range prog {
			if p.Owner == o && p.Op == "kill" {
				killedOwner = true
			}
		}
		_ = killedOwner
		if running {
			segs = append(segs, seg{from, 1<<62 - 1})
		}
		for _, sg := range segs {
			for t := sg.from + iv; t <= horizon; t += iv {
				if t < sg.to {
					required[id] = append(required[id], t)
				}
				if t <= sg.to {
					allowed[id] = append(allowed[id], t)
				}
			}
		}
	}
	dead := map[string]time.Duration{} // owner -> instant of kill
	for _, o := range prog {
		if o.Op == "kill" {
			if _, ok := dead[o.Owner]; !ok {
				dead[o.Owner] = o.At
			}
		}
	}
	for i, o := range prog {
		if o.Op != "once" && o.Op != "loop" && o.Op != "cron" {
			continue
		}
		if d, ok := dead[o.Owner]; ok && d < o.At {
			continue // owner dead before the command arrives (the command itself is dead-lettered)
		}
		ownerDiesSameInstantEarlier := false
		if d, ok := dead[o.Owner]; ok && d == o.At {
			for j := 0; j < i; j++ {
				if prog[j].Op == "kill" && prog[j].Owner == o.Owner {
					ownerDiesSameInstantEarlier = true
				}
			}
		}
		// an earlier job with the same (owner, ref) that is still live makes this one a duplicate (generator avoids it)
		end := time.Duration(1<<62 - 1)
		for j := i + 1; j < len(prog); j++ {
			p := prog[j]
			if p.Owner != o.Owner {
				continue
			}
			if (p.Op == "cancel" && p.Ref == o.Ref) || p.Op == "clear" || p.Op == "kill" || p.Op == "fail" {
				end = p.At
				break
			}
		}
		recv := o.Receiver
		if recv == "" {
			recv = o.Owner
		}
		recvOf[o.MsgID] = recv
		var fires []time.Duration
		switch o.Op {
		case "once":
			fires = []time.Duration{o.At + o.D}
		case "loop":
			for t := o.At + o.D; t <= horizon; t += o.D {
				fires = append(fires, t)
			}
		case "cron":
			var step, off time.Duration
			switch o.Cron {
			case "0/2 * * * * *":
				step, off = 2*time.Second, 0
			case "0/1 * * * * *":
				step, off = time.Second, 0
			case "1/3 * * * * *":
				step, off = 3*time.Second, time.Second
			}
			for t := off; t <= horizon; t += step {
				if t > o.At {
					fires = append(fires, t)
				}
			}
		}
		for _, t := range fires {
			if t > horizon {
				continue
			}
			if ownerDiesSameInstantEarlier {
				continue
			}
			if t < end {
				required[o.MsgID] = append(required[o.MsgID], t)
			}
			if t <= end {
				allowed[o.MsgID] = append(allowed[o.MsgID], t)
			}
		}
	}
	return
}

func vfRunSched(owners []string, prog []vfSchedOp, launchLoop map[string]time.Duration, res *vfCellResult) {
	w := newVfWorld()
	res.w = w
	add := func(kind, key, f string, a ...any) {
		res.viols = append(res.viols, vfViol{kind, key, fmt.Sprintf(f, a...)})
	}
	if err := w.start(); err != nil {
		add("harness-error", "start", "%v", err)
		return
	}
	sup := &vfSpec{Name: "sup", Strategy: vfStratOne, Decisions: []vivid.SupervisionDecision{vivid.SupervisionDecisionRestart}}
	for oi, o := range owners {
		cs := &vfSpec{Name: o}
		if (oi+len(prog))%2 == 0 {
			// owners with a child: their own termination / restart is confirmed while they handle the child's OnKilled, a
			// different code path from the one a childless owner takes
			cs.Children = []*vfSpec{{Name: o + "c"}}
		}
		if iv, ok := launchLoop[o]; ok {
			cs.Loop, cs.LoopID = iv, 9000+oi
		}
		sup.Children = append(sup.Children, cs)
	}
	if _, err := w.spawnTop(sup); err != nil {
		add("harness-error", "spawn", "%v", err)
		return
	}
	// a receiver that is already dead
	deadRef, _ := w.spawnTop(&vfSpec{Name: "dead"})
	w.wait()
	w.sys.Kill(deadRef, false, "vf")
	w.wait()
	start := time.Now()
	w.t0 = start
	msgs := map[int]*vfSched{}
	const horizon = 4500 * time.Millisecond
	for _, o := range prog {
		if d := o.At - time.Since(start); d > 0 {
			time.Sleep(d)
			w.wait()
		}
		r := w.ref(o.Owner)
		switch o.Op {
		case "kill":
			w.sys.Kill(r, o.Poison, "vf-sched")
		case "fail":
			w.tell(r, "actorof", &vfCmd{ID: w.newID(), Op: "panic"})
		default:
			m := &vfSched{Ref: o.Ref, ID: o.MsgID}
			msgs[o.MsgID] = m
			w.tell(r, "actorof", &vfCmd{ID: w.newID(), Op: "sched", Arg: &vfSchedCmd{Op: o, Msg: m}})
		}
		w.wait()
	}
	if d := horizon - time.Since(start); d > 0 {
		time.Sleep(d)
	}
	w.wait()
	required, allowed, recvOf := vfSchedModel(owners, prog, launchLoop, horizon)
	got := map[int][]time.Duration{}
	for _, e := range w.snapshot() {
		switch {
		case e.Kind == "recv" && e.Msg == "SC" && e.ID > 0:
			got[e.ID] = append(got[e.ID], e.Now)
			if want := "/sup/" + recvOf[e.ID]; e.Path != want {
				add("c20-wrong-receiver", "delivery", "scheduled message #%d delivered to %s, scheduled for %s", e.ID, e.Path, want)
			}
		case e.Kind == "obs" && e.Msg == "dl:SCW" && e.ID > 0:
			// a firing whose receiver is dead is visible as a dead letter; whether it was allowed to fire at that
			// instant is decided below exactly like a delivery (owner dead/cancelled => not allowed)
			got[e.ID] = append(got[e.ID], e.Now)
		case e.Kind == "recv" && e.Msg == "SCW":
			add("c20-not-unwrapped", "SchedulerMessage", "%s saw the SchedulerMessage wrapper instead of the original message", e.Path)
		case e.Kind == "api" && strings.HasPrefix(e.Msg, "viol:"):
			add(strings.TrimPrefix(e.Msg, "viol:"), "api", "%s: %s", e.Path, e.Aux)
		}
	}
	ids := map[int]bool{}
	for id := range got {
		ids[id] = true
	}
	for id := range required {
		ids[id] = true
	}
	for id := range ids {
		g := append([]time.Duration(nil), got[id]...)
		sort.Slice(g, func(i, j int) bool { return g[i] < g[j] })
		alw := map[time.Duration]int{}
		for _, t := range allowed[id] {
			alw[t]++
		}
		for _, t := range g {
			if alw[t] == 0 {
				kind := "c20-unexpected-firing"
				det := "not a firing instant of the job, or at/after its cancel / clear / owner termination / owner restart"
				for _, a := range allowed[id] {
					if t < a {
						kind, det = "c20-fired-early", fmt.Sprintf("before the scheduled instant %v", a)
						break
					}
				}
				add(kind, "delivery", "message #%d fired at %v: %s (allowed instants: %v)", id, t, det, vfClipDur(allowed[id]))
				break
			}
			alw[t]--
		}
		have := map[time.Duration]int{}
		for _, t := range g {
			have[t]++
		}
		for _, t := range required[id] {
			if have[t] == 0 {
				add("c20-missed-firing", "delivery", "message #%d should have fired at %v (job live, owner alive) but did not; observed firings %v", id, t, vfClipDur(g))
				break
			}
			have[t]--
		}
	}
	// identity of delivered values
	w.mu.Lock()
	for _, s := range w.schedIdentity {
		res.viols = append(res.viols, vfViol{"c20-message-not-original", "delivery", s})
	}
	w.mu.Unlock()
	res.viols = append(res.viols, w.oracleOverlap()...)
	nf := 0
	for _, g := range got {
		nf += len(g)
	}
	res.sig = fmt.Sprintf("jobs=%d firings=%d", len(recvOf), nf)
	w.schedMsgs = msgs
	if err := w.stop(); err != nil {
		add("c07-stop-error", "scheduler", "%v", err)
	}
}

func vfClipDur(d []time.Duration) string {
	if len(d) > 8 {
		return fmt.Sprintf("%v … (%d)", d[:8], len(d))
	}
	return fmt.Sprint(d)
}

func TestVerif_scheduler(t *testing.T) {
	R := verifrt.NewReport("scheduler", "PRNG programs over 1-3 owner actors under a restarting supervisor: 3-30 timed steps from {Once (delays 1ns..1h), Loop (intervals 7ms..1h), Cron (3 second-granular expressions), Cron with 15 malformed expressions, Cancel (40% aimed at a firing instant, +-1 ms), Cancel(unknown), Clear, Kill poison/immediate, fail-and-restart}; receivers self / other owner / an already dead actor; 40% of the owners additionally schedule a Loop from OnLaunch in every incarnation; same reference string on different actors; executed in a synctest bubble (exact virtual clock) and observed for 4.5 virtual seconds; every delivery instant is compared with a reference model: required firings (strictly before the job's end) must occur exactly once, nothing outside the allowed set (<= end; ties at the end instant accepted either way). non-trivial+distinct = distinct programs (by text) with >= 1 job and >= 1 observed firing")
	defer R.Flush()
	n := verifrt.EnvInt("VERIF_N", 3000)
	if verifrt.Thorough() {
		n = 100000
	}
	only := verifrt.EnvInt("VERIF_CASE", -1)
	for ci := 0; ci < n; ci++ {
		if !verifrt.Mine(ci) || (only >= 0 && only != ci) {
			continue
		}
		rng := verifrt.NewRand(verifrt.CaseSeed("scheduler", ci))
		owners, prog, launchLoop := vfGenSchedProgram(rng)
		var ps []string
		for _, o := range verifrt.SortedKeys(launchLoop) {
			ps = append(ps, fmt.Sprintf("%s.onLaunch:loop(%v)", o, launchLoop[o]))
		}
		for _, o := range prog {
			ps = append(ps, o.String())
		}
		desc := strings.Join(ps, " ; ")
		R.Journal(ci, desc)
		res := &vfCellResult{}
		hang, stacks, pan := vfBubble(t, 90*time.Second, func() { vfRunSched(owners, prog, launchLoop, res) })
		R.Eval()
		viols := res.viols
		if hang {
			viols = append(viols, vfViol{"c20-hang", "bubble", verifrt.Short(stacks, 4000)})
		}
		if pan != nil {
			viols = append(viols, vfViol{"harness-panic", "bubble", verifrt.Short(fmt.Sprint(pan), 2000)})
		}
		if !strings.HasPrefix(res.sig, "jobs=0") && !strings.HasSuffix(res.sig, "firings=0") && res.sig != "" {
			R.Nontrivial(desc)
		}
		var nf int64
		fmt.Sscanf(res.sig[strings.Index(res.sig+"firings=0", "firings=")+8:], "%d", &nf)
		R.Obs("firings_observed", nf)
		seen := map[string]bool{}
		for _, v := range viols {
			if seen[v.Kind] {
				continue
			}
			seen[v.Kind] = true
			R.Violate(ci, v.Kind, v.Key, v.Detail+" | program: "+verifrt.Short(desc, 2500), map[string]any{"program": desc})
		}
		if ci < 3 {
			R.Sample(map[string]any{"program": verifrt.Short(desc, 900), "observed": res.sig})
		}
		if hang {
			R.Flush()
			t.Fatalf("hang")
		}
	}
}
