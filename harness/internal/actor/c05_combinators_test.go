//go:build verif

package actor

import (
	"errors"
	"fmt"
	"strings"
	"sync"
	"testing"
	"testing/synctest"
	"time"

	"github.com/kercylan98/vivid"
	"github.com/kercylan98/vivid/internal/verifrt"
	"github.com/kercylan98/vivid/pkg/log"
)

// C05 / C09 — combinators: the lifecycle clauses for actors that are not written by hand but assembled with the
// library's own constructors: NewPrelaunchActor / NewPreRestartActor / NewRestartedActor wrapped around an ActorFN, and
// NewComplexCombinationActor over 1-3 such parts. Enumerated: which hook fails (none / Prelaunch at spawn / Restarted /
// Prelaunch at restart), in which part (every position), how (error / panic), and how the parts are built (each part
// implements all three hooks, or only the one under test, the others are plain ActorFN parts).
//   C05: a Prelaunch failure in ANY part means ActorOf returns an error, nothing is registered and no part ever receives
//        anything; otherwise every part sees OnLaunch first; a restart begins with OnLaunch for every part.
//   C09: a failing Restarted / Prelaunch hook in ANY part during a restart makes the actor a zombie: no part runs user code
//        afterwards, no termination is announced, and an explicit Kill releases it.

type vfCombCase struct {
	Parts   int
	Hook    string // none | prelaunch-spawn | restarted | prelaunch-restart
	FailIdx int    // failing part
	Panic   bool
	Sparse  bool // only the failing hook is implemented (by every part); false: every part implements all three hooks
}

func (c vfCombCase) String() string {
	return fmt.Sprintf("parts=%d failing-hook=%s in-part=%d panic=%v sparse=%v", c.Parts, c.Hook, c.FailIdx, c.Panic, c.Sparse)
}

func vfCombCases() []vfCombCase {
	var cs []vfCombCase
	for parts := 1; parts <= 3; parts++ {
		for _, sparse := range []bool{false, true} {
			cs = append(cs, vfCombCase{Parts: parts, Hook: "none", FailIdx: -1, Sparse: sparse})
			for _, hook := range []string{"prelaunch-spawn", "restarted", "prelaunch-restart"} {
				for idx := 0; idx < parts; idx++ {
					for _, pan := range []bool{false, true} {
						if pan && hook == "prelaunch-spawn" {
							// a Prelaunch hook that panics at spawn runs in the caller's goroutine and the panic reaches the caller of
							// ActorOf: the property speaks of a hook that fails by returning an error
							continue
						}
						cs = append(cs, vfCombCase{Parts: parts, Hook: hook, FailIdx: idx, Panic: pan, Sparse: sparse})
					}
				}
			}
		}
	}
	return cs
}

type vfCombWorld struct {
	mu        sync.Mutex
	log       []string // "<part>:<what>"
	prelaunch map[int]int
	killedEv  int
}

func (w *vfCombWorld) add(part int, what string) {
	w.mu.Lock()
	w.log = append(w.log, fmt.Sprintf("p%d:%s", part, what))
	w.mu.Unlock()
}

type vfCombProbe struct{ N int }
type vfCombFail struct{}

func vfRunComb(c vfCombCase) (viols []vfViol, trace string) {
	add := func(kind, key, f string, a ...any) { viols = append(viols, vfViol{kind, key, fmt.Sprintf(f, a...)}) }
	w := &vfCombWorld{prelaunch: map[int]int{}}
	sys := NewSystem(vivid.WithActorSystemLogger(log.NewSilentLogger()))
	if err := sys.Start(); err != nil {
		add("harness-error", "start", "%v", err)
		return
	}
	fail := func(what string) error {
		if c.Panic {
			panic("vf-comb-" + what)
		}
		return errors.New("vf-comb-" + what)
	}
	behaviour := func(i int) vivid.Actor {
		return vivid.ActorFN(func(ctx vivid.ActorContext) {
			switch m := ctx.Message().(type) {
			case *vivid.OnLaunch:
				w.add(i, "L")
			case *vivid.OnKill:
				w.add(i, "K")
			case *vivid.OnKilled:
				w.add(i, "D")
			case *vfCombProbe:
				w.add(i, fmt.Sprintf("U%d", m.N))
			case *vfCombFail:
				w.add(i, "F")
				if i == 0 {
					panic("vf-comb-user-failure")
				}
			}
		})
	}
	var parts []vivid.Actor
	for i := 0; i < c.Parts; i++ {
		i := i
		prelaunch := func(vivid.PrelaunchContext) error {
			w.mu.Lock()
			w.prelaunch[i]++
			n := w.prelaunch[i]
			w.mu.Unlock()
			w.add(i, "hook:prelaunch")
			if i == c.FailIdx && ((c.Hook == "prelaunch-spawn" && n == 1) || (c.Hook == "prelaunch-restart" && n == 2)) {
				return fail("prelaunch")
			}
			return nil
		}
		restarted := func(vivid.RestartContext) error {
			w.add(i, "hook:restarted")
			if i == c.FailIdx && c.Hook == "restarted" {
				return fail("restarted")
			}
			return nil
		}
		prerestart := func(vivid.RestartContext) error { w.add(i, "hook:prerestart"); return nil }
		beh := behaviour(i)
		var part vivid.Actor
		switch {
		case !c.Sparse: // all three hooks on this part, composed the way the library offers it
			part = vivid.NewComplexCombinationActor(vivid.NewPrelaunchActor(prelaunch), vivid.NewPreRestartActor(prerestart), vivid.NewRestartedActor(restarted, beh))
		case strings.HasPrefix(c.Hook, "prelaunch"):
			part = vivid.NewPrelaunchActor(prelaunch, beh)
		case c.Hook == "restarted":
			part = vivid.NewRestartedActor(restarted, beh)
		default:
			part = beh
		}
		parts = append(parts, part)
	}
	actor := vivid.NewComplexCombinationActor(parts...)
	if c.Parts == 1 {
		actor = parts[0] // a single (wrapped) actor, no outer combination
	}
	// supervisor: restarts its child on failure; observer for ActorKilledEvent
	var childRef vivid.ActorRef
	var spawnErr error
	spawned := false
	sup := vivid.ActorFN(func(ctx vivid.ActorContext) {
		if _, ok := ctx.Message().(*vivid.OnLaunch); ok && !spawned {
			spawned = true
			childRef, spawnErr = ctx.ActorOf(actor, vivid.WithActorName("c"))
		}
	})
	restart := vivid.WithActorSupervisionStrategy(vivid.OneForOneStrategy(vivid.SupervisionStrategyDecisionMakerFN(func(vivid.SupervisionContext) (vivid.SupervisionDecision, string) {
		return vivid.SupervisionDecisionRestart, "vf-comb"
	})))
	if _, err := sys.ActorOf(sup, vivid.WithActorName("sup"), restart); err != nil {
		add("harness-error", "spawn", "%v", err)
		return
	}
	synctest.Wait()
	snapshot := func() []string {
		w.mu.Lock()
		defer w.mu.Unlock()
		return append([]string(nil), w.log...)
	}
	defer func() {
		trace = strings.Join(snapshot(), " ")
		if err := sys.Stop(); err != nil {
			viols = append(viols, vfViol{"c07-stop-error", "combinators", err.Error()})
		}
		synctest.Wait()
	}()
	received := func(lg []string, from int) (n int) { // messages (not hooks) seen by behaviours from log position `from` on
		for _, e := range lg[from:] {
			if !strings.Contains(e, "hook:") {
				n++
			}
		}
		return
	}
	key := c.Hook
	if c.Hook == "prelaunch-spawn" {
		lg := snapshot()
		if spawnErr == nil {
			add("c05-actorof-succeeds-despite-prelaunch-failure", key, "part %d of %d failed in Prelaunch (%s) but ActorOf returned a nil error and ref %v", c.FailIdx, c.Parts, map[bool]string{false: "error", true: "panic"}[c.Panic], childRef)
		}
		if n := received(lg, 0); n > 0 {
			add("c05-failed-spawn-received-message", key, "Prelaunch failed, yet the parts received %d message(s): %v", n, lg)
		}
		if _, err := sys.FindActor("/sup/c"); err == nil {
			add("c05-failed-spawn-registered", key, "Prelaunch failed, yet /sup/c is registered")
		}
		// later mail must not reach it either
		if childRef != nil {
			sys.Tell(childRef, &vfCombProbe{N: 1})
			synctest.Wait()
			if n := received(snapshot(), 0); n > 0 {
				add("c05-failed-spawn-received-message", key, "a message sent later was handled: %v", snapshot())
			}
		}
		return
	}
	if spawnErr != nil || childRef == nil {
		add("c05-spawn-failed", key, "ActorOf returned %v although no Prelaunch hook fails at spawn", spawnErr)
		return
	}
	// every part saw OnLaunch first
	lg := snapshot()
	for i := 0; i < c.Parts; i++ {
		first := ""
		for _, e := range lg {
			if strings.HasPrefix(e, fmt.Sprintf("p%d:", i)) && !strings.Contains(e, "hook:") {
				first = e
				break
			}
		}
		if first != fmt.Sprintf("p%d:L", i) {
			add("c05-onlaunch-not-first", key, "part %d: first message is %q, want OnLaunch: %v", i, first, lg)
		}
	}
	sys.Tell(childRef, &vfCombProbe{N: 1})
	synctest.Wait()
	// failure -> Restart decision
	mark := len(snapshot())
	sys.Tell(childRef, &vfCombFail{})
	sys.Tell(childRef, &vfCombProbe{N: 2}) // queued behind the failing message
	synctest.Wait()
	time.Sleep(time.Second)
	synctest.Wait()
	after := snapshot()
	cx, _ := sys.actorContexts.Load("/sup/c")
	ctxC, _ := cx.(*Context)
	switch c.Hook {
	case "none":
		for i := 0; i < c.Parts; i++ {
			seq := ""
			for _, e := range after[mark:] {
				if strings.HasPrefix(e, fmt.Sprintf("p%d:", i)) && !strings.Contains(e, "hook:") {
					seq += strings.TrimPrefix(e, fmt.Sprintf("p%d:", i)) + " "
				}
			}
			if !strings.Contains(seq, "L U2") {
				add("c05-restart-without-onlaunch", key, "part %d after the failure saw [%s], want ... OnLaunch, then the message queued behind the failure", i, strings.TrimSpace(seq))
			}
		}
		if ctxC == nil || ctxC.zombie {
			add("c09-zombie-without-hook-failure", key, "no hook failed, yet /sup/c is %v", map[bool]string{true: "a zombie", false: "gone"}[ctxC != nil])
		}
	case "restarted", "prelaunch-restart":
		if ctxC == nil || !ctxC.zombie {
			add("c09-zombie-expected", key, "part %d of %d failed in its %s hook during the restart: the actor must be a registered zombie; registered=%v zombie=%v; log after the failure: %v", c.FailIdx, c.Parts, c.Hook, ctxC != nil, ctxC != nil && ctxC.zombie, after[mark:])
		}
		// no user code from the hook failure on: find the failing hook's position
		pos := -1
		want := fmt.Sprintf("p%d:hook:%s", c.FailIdx, map[string]string{"restarted": "restarted", "prelaunch-restart": "prelaunch"}[c.Hook])
		seen := 0
		for k, e := range after {
			if e == want {
				seen++
				if (c.Hook == "restarted" && seen == 1) || (c.Hook == "prelaunch-restart" && seen == 2) {
					pos = k
				}
			}
		}
		if pos < 0 {
			add("c09-hook-not-called", key, "the %s hook of part %d was not reached during the restart: %v", c.Hook, c.FailIdx, after[mark:])
			return
		}
		sys.Tell(childRef, &vfCombProbe{N: 3})
		synctest.Wait()
		time.Sleep(time.Second)
		synctest.Wait()
		fin := snapshot()
		if n := received(fin, pos+1); n > 0 {
			add("c09-zombie-runs-user-code", key, "after the failing %s hook of part %d the parts still received %d message(s): %v", c.Hook, c.FailIdx, n, fin[pos+1:])
		}
		// released by Kill
		sys.Kill(childRef, false, "release")
		synctest.Wait()
		time.Sleep(time.Second)
		synctest.Wait()
		if _, still := sys.actorContexts.Load("/sup/c"); still && ctxC != nil && ctxC.zombie {
			add("c09-zombie-not-released", key, "the zombie is still registered after an explicit Kill")
		}
	}
	return
}

func TestVerif_combinators(t *testing.T) {
	R := verifrt.NewReport("combinators", "enumerated in virtual time: actors assembled with the library's own constructors (NewPrelaunchActor / NewPreRestartActor / NewRestartedActor around ActorFN behaviours, NewComplexCombinationActor over 1-3 parts; every part with all three hooks, or only the hook under test) x failing hook {none, Prelaunch at spawn, Restarted, Prelaunch at restart} x failing part (every position) x {error, panic}. Oracle: Prelaunch failure in any part => ActorOf returns an error, nothing registered, no part ever receives anything; otherwise OnLaunch first for every part and again after a restart, then the mail queued behind the failure; a failing restart hook in any part => registered zombie, no part runs user code from that hook on, Kill releases it. non-trivial+distinct = cases that ran to their end")
	defer R.Flush()
	cases := vfCombCases()
	only := verifrt.EnvInt("VERIF_CASE", -1)
	for ci, c := range cases {
		if !verifrt.Mine(ci) || (only >= 0 && only != ci) {
			continue
		}
		R.Journal(ci, c.String())
		var viols []vfViol
		var trace string
		hang, stacks, pan := vfBubble(t, 60*time.Second, func() { viols, trace = vfRunComb(c) })
		R.Eval()
		if hang {
			viols = append(viols, vfViol{"c09-hang", "bubble", verifrt.Short(stacks, 20000)})
		}
		if pan != nil {
			ps := fmt.Sprint(pan)
			kind := "c07-goroutines-left-after-stop"
			if !strings.Contains(ps, "deadlock") && !strings.Contains(ps, "blocked") {
				kind = "harness-panic"
			}
			viols = append(viols, vfViol{kind, "bubble", verifrt.Short(ps, 3000)})
		}
		for _, v := range viols {
			R.Violate(ci, v.Kind, v.Key, v.Detail+" | case: "+c.String()+" | trace: "+verifrt.Short(trace, 1500), map[string]any{"case": c.String()})
		}
		R.Nontrivial(c.String())
		R.Obs("hook_"+c.Hook, 1)
		if ci%17 == 0 {
			R.Sample(map[string]any{"case": c.String(), "trace": verifrt.Short(trace, 400), "violations": len(viols)})
		}
		if hang {
			R.Flush()
			t.Fatalf("hang")
		}
	}
	R.Exhaustive = true
}
