//go:build verif

package mailbox

import "sync/atomic"

// Exports for the /verif harness (overlaid at check time, never part of the repository).

// VfPending returns the number of accepted but not yet handled user and system envelopes.
func VfPending(m *UnboundedMailbox) (user, system int32) {
	return atomic.LoadInt32(&m.num), atomic.LoadInt32(&m.systemNum)
}
