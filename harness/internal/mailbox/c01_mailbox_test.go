//go:build verif

package mailbox

import (
	"fmt"
	"runtime"
	"sort"
	"strings"
	"sync"
	"sync/atomic"
	"testing"
	"testing/synctest"
	"time"

	"github.com/kercylan98/vivid"
	"github.com/kercylan98/vivid/internal/verifrt"
)

// C01 — mailbox monitors (DESIGN §4 C01): overlap counter, exactly-once ledger, quiescent-state
// invariant, pause rule, step budget (spin). Also feeds C02's priority / per-sender order rules.

const (
	vfOpUser = iota
	vfOpSystem
	vfOpPause
	vfOpResume
)

const (
	vfActNone = iota
	vfActSelfUser
	vfActSelfSystem
	vfActSelfPause
	vfActSelfResume
	vfActSelfPauseThenUser
)

type vfMsg struct {
	ID     int
	Sender int // goroutine index; -1 for handler-generated
	Seq    int // per (sender,class) sequence
	Sys    bool
	Act    int
}

type vfOp struct {
	Kind int
	Msg  vfMsg
}

func (o vfOp) String() string {
	switch o.Kind {
	case vfOpUser:
		return fmt.Sprintf("U%d/a%d", o.Msg.ID, o.Msg.Act)
	case vfOpSystem:
		return fmt.Sprintf("S%d/a%d", o.Msg.ID, o.Msg.Act)
	case vfOpPause:
		return "Pause"
	}
	return "Resume"
}

type vfSpan struct {
	call, ret int64
	self      bool // issued from inside a handler of this mailbox, i.e. by the consumer goroutine itself
}

type vfHandled struct {
	msg        vfMsg
	start, end int64
}

type vfMon struct {
	clock    atomic.Int64
	inflight atomic.Int32
	mu       sync.Mutex
	overlap  int
	handled  []vfHandled
	enq      map[int]vfSpan // message id -> enqueue call/return stamps
	enqMsg   map[int]vfMsg
	pauses   []vfSpan
	resumes  []vfSpan
	mb       *UnboundedMailbox
	nextID   atomic.Int64
	work     func() // optional busy work inside the handler
}

func newVfMon() *vfMon {
	m := &vfMon{enq: map[int]vfSpan{}, enqMsg: map[int]vfMsg{}}
	m.nextID.Store(100000)
	return m
}

func (m *vfMon) enqueue(msg vfMsg) {
	c := m.clock.Add(1)
	m.mu.Lock()
	m.enqMsg[msg.ID] = msg
	m.enq[msg.ID] = vfSpan{call: c, ret: 1 << 62}
	m.mu.Unlock()
	verifrt.Progress()
	m.mb.Enqueue(NewEnvelop(msg.Sys, nil, nil, msg))
	r := m.clock.Add(1)
	m.mu.Lock()
	m.enq[msg.ID] = vfSpan{call: c, ret: r}
	m.mu.Unlock()
}

func (m *vfMon) pause() { m.pauseFrom(false) }

func (m *vfMon) pauseFrom(self bool) {
	c := m.clock.Add(1)
	verifrt.Progress()
	m.mb.Pause()
	r := m.clock.Add(1)
	m.mu.Lock()
	m.pauses = append(m.pauses, vfSpan{c, r, self})
	m.mu.Unlock()
}

func (m *vfMon) resume() {
	c := m.clock.Add(1)
	m.mu.Lock()
	i := len(m.resumes)
	m.resumes = append(m.resumes, vfSpan{call: c, ret: 1 << 62})
	m.mu.Unlock()
	verifrt.Progress()
	m.mb.Resume()
	r := m.clock.Add(1)
	m.mu.Lock()
	m.resumes[i].ret = r
	m.mu.Unlock()
}

func (m *vfMon) HandleEnvelop(e vivid.Envelop) {
	if m.inflight.Add(1) != 1 {
		m.mu.Lock()
		m.overlap++
		m.mu.Unlock()
	}
	verifrt.Progress()
	start := m.clock.Add(1)
	msg, _ := e.Message().(vfMsg)
	verifrt.P("harness.handler#in")
	if m.work != nil {
		m.work()
	}
	switch msg.Act {
	case vfActSelfUser:
		m.enqueue(vfMsg{ID: int(m.nextID.Add(1)), Sender: -1})
	case vfActSelfSystem:
		m.enqueue(vfMsg{ID: int(m.nextID.Add(1)), Sender: -1, Sys: true})
	case vfActSelfPause:
		m.pauseFrom(true)
	case vfActSelfResume:
		m.resume()
	case vfActSelfPauseThenUser:
		m.pauseFrom(true)
		m.enqueue(vfMsg{ID: int(m.nextID.Add(1)), Sender: -1})
	}
	verifrt.P("harness.handler#out")
	end := m.clock.Add(1)
	m.mu.Lock()
	m.handled = append(m.handled, vfHandled{msg, start, end})
	m.mu.Unlock()
	m.inflight.Add(-1)
}

func vfGenProgram(rng *verifrt.Rand, maxThreads, maxOps int) [][]vfOp {
	nth := 1 + rng.Intn(maxThreads)
	progs := make([][]vfOp, nth)
	id := 0
	for g := range progs {
		n := 1 + rng.Intn(maxOps)
		seqU, seqS := 0, 0
		for k := 0; k < n; k++ {
			r := rng.Intn(100)
			var o vfOp
			switch {
			case r < 40:
				id++
				seqU++
				o = vfOp{Kind: vfOpUser, Msg: vfMsg{ID: id, Sender: g, Seq: seqU}}
			case r < 60:
				id++
				seqS++
				o = vfOp{Kind: vfOpSystem, Msg: vfMsg{ID: id, Sender: g, Seq: seqS, Sys: true}}
			case r < 80:
				o = vfOp{Kind: vfOpPause}
			default:
				o = vfOp{Kind: vfOpResume}
			}
			if o.Kind <= vfOpSystem && rng.Intn(100) < 30 {
				o.Msg.Act = 1 + rng.Intn(5)
			}
			progs[g] = append(progs[g], o)
		}
	}
	return progs
}

// vfGenSetup: a sequential prefix executed (and quiesced) before the racing goroutines start, so that the race begins from
// a state that a purely concurrent program reaches only with luck: a mailbox that is already paused (with or without a
// backlog), or one that was paused and resumed. Windows such as "Enqueue reads the pause flag, a whole Resume and its
// consumer run, Enqueue pushes" then need one well-placed delay instead of three coordinated ones. Ids start at 1000.
func vfGenSetup(rng *verifrt.Rand) []vfOp {
	if rng.Intn(100) < 45 {
		return nil
	}
	var ops []vfOp
	id, seqU, seqS := 1000, 0, 0
	user := func() vfOp { id++; seqU++; return vfOp{Kind: vfOpUser, Msg: vfMsg{ID: id, Sender: 99, Seq: seqU}} }
	sys := func() vfOp {
		id++
		seqS++
		return vfOp{Kind: vfOpSystem, Msg: vfMsg{ID: id, Sender: 99, Seq: seqS, Sys: true}}
	}
	switch rng.Intn(6) {
	case 0: // paused, empty
		ops = []vfOp{{Kind: vfOpPause}}
	case 1: // paused with a user backlog
		ops = []vfOp{{Kind: vfOpPause}}
		for k := 1 + rng.Intn(3); k > 0; k-- {
			ops = append(ops, user())
		}
	case 2: // backlog handled, then paused
		ops = []vfOp{user(), {Kind: vfOpPause}}
	case 3: // paused, system mail handled while paused, user mail waiting
		ops = []vfOp{{Kind: vfOpPause}, sys(), user()}
	case 4: // paused and resumed again (flags back to the start, ring has grown)
		ops = []vfOp{user(), user(), user(), {Kind: vfOpPause}, user(), {Kind: vfOpResume}}
	case 5: // paused twice
		ops = []vfOp{{Kind: vfOpPause}, {Kind: vfOpPause}, user()}
	}
	return ops
}

func vfProgString(p [][]vfOp) string {
	var parts []string
	for g, ops := range p {
		var s []string
		for _, o := range ops {
			s = append(s, o.String())
		}
		parts = append(parts, fmt.Sprintf("g%d:[%s]", g, strings.Join(s, " ")))
	}
	return strings.Join(parts, " ")
}

func (m *vfMon) runOps(ops []vfOp) {
	for _, o := range ops {
		switch o.Kind {
		case vfOpUser, vfOpSystem:
			m.enqueue(o.Msg)
		case vfOpPause:
			m.pause()
		case vfOpResume:
			m.resume()
		}
	}
}

// analyse applies oracles (a),(b),(d) and the C02 ordering rules to the recorded history.
// final=true also requires every enqueued message to have been handled.
func (m *vfMon) analyse(final bool) (viol [][2]string) {
	m.mu.Lock()
	defer m.mu.Unlock()
	add := func(kind, f string, a ...any) { viol = append(viol, [2]string{kind, fmt.Sprintf(f, a...)}) }
	if m.overlap > 0 {
		add("overlap", "%d handler invocations started while another was in progress", m.overlap)
	}
	count := map[int]int{}
	for _, h := range m.handled {
		count[h.msg.ID]++
		if _, ok := m.enq[h.msg.ID]; !ok {
			add("phantom-message", "handled id %d that was never enqueued", h.msg.ID)
		}
	}
	for id, n := range count {
		if n > 1 {
			add("duplicate-delivery", "message %d handled %d times", id, n)
		}
	}
	if final {
		var lost []int
		for id := range m.enq {
			if count[id] == 0 {
				lost = append(lost, id)
			}
		}
		sort.Ints(lost)
		if len(lost) > 0 {
			add("lost-message", "messages %v were accepted by Enqueue but never handled (even after a final Resume)", lost)
		}
	}
	// (d) pause rule
	var userStarts []int64
	userIDAt := map[int64]int{}
	for _, h := range m.handled {
		if !h.msg.Sys {
			userStarts = append(userStarts, h.start)
			userIDAt[h.start] = h.msg.ID
		}
	}
	sort.Slice(userStarts, func(i, j int) bool { return userStarts[i] < userStarts[j] })
	// resumes sorted by ret, with suffix-min of call: tr(tp) = min call over resumes with ret > tp
	rs := append([]vfSpan(nil), m.resumes...)
	sort.Slice(rs, func(i, j int) bool { return rs[i].ret < rs[j].ret })
	sufMinCall := make([]int64, len(rs)+1)
	sufMinCall[len(rs)] = 1 << 62
	for i := len(rs) - 1; i >= 0; i-- {
		sufMinCall[i] = sufMinCall[i+1]
		if rs[i].call < sufMinCall[i] {
			sufMinCall[i] = rs[i].call
		}
	}
	for _, p := range m.pauses {
		tp := p.ret
		// a Resume whose interval overlaps the Pause's own interval [call, ret] is concurrent with it: either order of
		// their effects is legitimate, no constraint. (Checking only "in flight when Pause returned" missed a Resume that
		// was called and returned between the Pause's store and its recorded return: 1 alarm in 1.6 M stress cases.)
		i := sort.Search(len(rs), func(i int) bool { return rs[i].ret > p.call })
		tr := sufMinCall[i]
		if tr < tp {
			continue
		}
		lo := sort.Search(len(userStarts), func(i int) bool { return userStarts[i] > tp })
		hi := sort.Search(len(userStarts), func(i int) bool { return userStarts[i] >= tr })
		// one user handler may already have been admitted by the consumer when an *external* Pause returns;
		// a Pause issued by the consumer itself (from inside a handler) leaves no such slack
		allowed := 1
		if p.self {
			allowed = 0
		}
		if hi-lo > allowed {
			var ids []int
			for k := lo; k < hi && k < lo+6; k++ {
				ids = append(ids, userIDAt[userStarts[k]])
			}
			add("user-handled-while-paused", "%d user handler(s) (ids %v…) started between a Pause return (t=%d, issued from inside a handler: %v) and the next Resume call (t=%d); allowed: %d", hi-lo, ids, tp, p.self, tr, allowed)
			break
		}
	}
	// C02: per (sender,class) order
	last := map[[2]int]int{}
	for _, h := range m.handled {
		if h.msg.Sender < 0 {
			continue
		}
		cls := 0
		if h.msg.Sys {
			cls = 1
		}
		k := [2]int{h.msg.Sender, cls}
		if h.msg.Seq <= last[k] {
			add("order-per-sender", "sender g%d class %d: seq %d handled after seq %d", h.msg.Sender, cls, h.msg.Seq, last[k])
		}
		last[k] = h.msg.Seq
	}
	// C02: system before user. For user message U handled right after handler H: every system message S whose
	// Enqueue returned before the END of H must have STARTED before U started (the system queue is drained
	// between those two points).
	hs := append([]vfHandled(nil), m.handled...)
	sort.Slice(hs, func(i, j int) bool { return hs[i].start < hs[j].start })
	startOf := map[int]int64{}
	for _, h := range hs {
		if _, ok := startOf[h.msg.ID]; !ok {
			startOf[h.msg.ID] = h.start
		}
	}
	type sysRec struct {
		ret, start int64
		id         int
	}
	var sys []sysRec
	for id, sp := range m.enq {
		if m.enqMsg[id].Sys {
			st, ok := startOf[id]
			if !ok {
				st = 1 << 62
			}
			sys = append(sys, sysRec{sp.ret, st, id})
		}
	}
	sort.Slice(sys, func(i, j int) bool { return sys[i].ret < sys[j].ret })
	prefMax := make([]sysRec, len(sys)+1) // prefMax[i] = record with max start among sys[:i]
	for i, r := range sys {
		prefMax[i+1] = prefMax[i]
		if i == 0 || r.start > prefMax[i].start {
			prefMax[i+1] = r
		}
	}
	for k := 1; k < len(hs); k++ {
		u := hs[k]
		if u.msg.Sys {
			continue
		}
		prevEnd := hs[k-1].end
		i := sort.Search(len(sys), func(i int) bool { return sys[i].ret >= prevEnd })
		if i > 0 && prefMax[i].start > u.start {
			w := prefMax[i]
			add("prio-system-not-before-user", "system message %d (enqueue returned t=%d) was pending when the previous handler ended (t=%d) but user message %d started first (t=%d)", w.id, w.ret, prevEnd, u.msg.ID, u.start)
			break
		}
	}
	return
}

func vfQuiesceSerial(c *verifrt.Ctl) {
	for {
		before := c.Steps()
		time.Sleep(time.Millisecond) // longer than the longest delay a yield point can take (500 us)
		synctest.Wait()
		if c.Steps() == before {
			return
		}
	}
}

// vfIdleStepLimit: statements mailbox goroutines may execute in a row without a handler call or an external operation.
// Every Enqueue / Resume may legitimately start one consumer that finds nothing it is allowed to handle and goes back to
// idle (about 13 statements); when all external operations of a program are issued first and the consumers they started
// run afterwards (the stall class of the schedules makes that likely), those futile runs add up. The limit therefore
// grows with the number of operations that can start a consumer; a mailbox that really spins is unbounded and runs into
// the step budget (6 000) whatever the limit. (Fixed limit 64: one false alarm in 1 000 000 thorough schedules -
// 5 enqueues to a paused mailbox, 65 statements.)
func vfIdleStepLimit(setup []vfOp, progs [][]vfOp) int64 {
	n := len(setup)
	for _, p := range progs {
		n += len(p)
		for _, o := range p {
			if o.Msg.Act != 0 {
				n += 2 // the handler's own enqueue / pause / resume
			}
		}
	}
	if l := int64(20 * (n + 1)); l > 64 {
		return l
	}
	return 64
}

func TestVerif_mailboxsched(t *testing.T) {
	R := verifrt.NewReport("mailboxsched", "PRNG programs (1-4 goroutines x 1-6 ops from {EnqueueUser, EnqueueSystem, Pause, Resume}; 30% of messages make the handler enqueue to / pause / resume its own mailbox; ring initial size 2) executed on the real UnboundedMailbox under a serialized random schedule: every statement of unbounded_mailbox.go is a yield point (vinstr) and exactly one goroutine runs between two points (synctest virtual time, bursty delays). non-trivial+distinct = distinct interleaving hashes (sequence of yield-point sites) of cases with >=2 goroutines or >=1 Pause")
	defer R.Flush()
	n := verifrt.EnvInt("VERIF_N", 120000)
	if verifrt.Thorough() {
		n = 1000000
	}
	only := verifrt.EnvInt("VERIF_CASE", -1)
	var stepsTotal int64
	sites := map[string]int64{}
	for ci := 0; ci < n; ci++ {
		if !verifrt.Mine(ci) || (only >= 0 && only != ci) {
			continue
		}
		seed := verifrt.CaseSeed("mailboxsched", ci)
		rng := verifrt.NewRand(seed)
		progs := vfGenProgram(rng, 4, 6)
		setup := vfGenSetup(rng)
		ps := vfProgString(progs)
		if len(setup) > 0 {
			ps = "setup:" + vfProgString([][]vfOp{setup}) + " then " + ps
		}
		R.Journal(ci, ps)
		var viol [][2]string
		var hash uint64
		var steps int64
		done := make(chan struct{})
		go func() {
			defer close(done)
			defer func() {
				if r := recover(); r != nil {
					viol = append(viol, [2]string{"bubble-panic", fmt.Sprint(r)})
				}
			}()
			synctest.Test(t, func(t *testing.T) {
				mon := newVfMon()
				mon.mb = NewUnboundedMailbox(2, mon)
				c := verifrt.Begin(verifrt.ModeSerial, seed, 6000)
				if len(setup) > 0 {
					mon.runOps(setup)
					vfQuiesceSerial(c)
				}
				var wg sync.WaitGroup
				for g := range progs {
					wg.Add(1)
					go func(p []vfOp) {
						defer wg.Done()
						mon.runOps(p)
					}(progs[g])
				}
				wg.Wait()
				vfQuiesceSerial(c)
				verifrt.End()
				hash, steps = c.Hash(), c.Steps()
				for k, v := range c.Sites() {
					sites[k] += v
				}
				if limit := vfIdleStepLimit(setup, progs); c.Aborted() || c.MaxIdleSteps() > limit {
					viol = append(viol, [2]string{"spin", fmt.Sprintf("mailbox goroutine executed %d statements in a row without handling anything or any external operation (limit %d; step budget exhausted=%v) status=%d num=%d systemNum=%d paused=%d", c.MaxIdleSteps(), limit, c.Aborted(), atomic.LoadUint32(&mon.mb.status), atomic.LoadInt32(&mon.mb.num), atomic.LoadInt32(&mon.mb.systemNum), atomic.LoadUint32(&mon.mb.paused))})
					return
				}
				// (c) quiescent-state invariant
				st, nu, sn, pa := atomic.LoadUint32(&mon.mb.status), atomic.LoadInt32(&mon.mb.num), atomic.LoadInt32(&mon.mb.systemNum), atomic.LoadUint32(&mon.mb.paused)
				switch {
				case st != idle:
					viol = append(viol, [2]string{"not-idle-at-quiescence", fmt.Sprintf("status=processing but no goroutine is running (num=%d systemNum=%d paused=%d)", nu, sn, pa)})
				case sn != 0:
					viol = append(viol, [2]string{"lost-wakeup", fmt.Sprintf("idle with %d system message(s) pending (num=%d paused=%d)", sn, nu, pa)})
				case nu != 0 && pa == 0:
					viol = append(viol, [2]string{"lost-wakeup", fmt.Sprintf("idle and not paused with %d user message(s) pending", nu)})
				}
				viol = append(viol, mon.analyse(false)...)
				// final resume: everything must drain (a handler may re-pause: resume until stable)
				c2 := verifrt.Begin(verifrt.ModeSerial, seed+1, 6000)
				for k := 0; k < 12; k++ {
					mon.resume()
					vfQuiesceSerial(c2)
					if atomic.LoadInt32(&mon.mb.num) == 0 && atomic.LoadInt32(&mon.mb.systemNum) == 0 {
						break
					}
				}
				verifrt.End()
				if c2.Aborted() {
					viol = append(viol, [2]string{"spin", "step budget exhausted after the final Resume"})
					return
				}
				if len(viol) == 0 {
					viol = append(viol, mon.analyse(true)...)
				}
				steps += c2.Steps()
			})
		}()
		select {
		case <-done:
		case <-time.After(60 * time.Second):
			buf := make([]byte, 1<<16)
			buf = buf[:runtime.Stack(buf, true)]
			R.Violate(ci, "hang", "bubble", "case did not finish within 60 s of real time (normal: < 1 ms): "+ps+"\n"+string(buf), map[string]any{"program": ps})
			R.Flush()
			t.Fatalf("hang in case %d", ci)
		}
		R.Eval()
		stepsTotal += steps
		npause := strings.Count(ps, "Pause")
		if len(progs) >= 2 || npause >= 1 {
			R.NontrivialHash(hash)
		}
		seen := map[string]bool{}
		for _, v := range viol {
			if seen[v[0]] {
				continue
			}
			seen[v[0]] = true
			R.Violate(ci, v[0], "UnboundedMailbox", v[1]+" | program: "+ps, map[string]any{"program": ps})
		}
		if ci < 3 {
			R.Sample(map[string]any{"program": ps, "steps": steps, "interleaving_hash": fmt.Sprintf("%016x", hash)})
		}
	}
	R.Obs("yield_points_executed", stepsTotal)
	for k, v := range sites {
		if !strings.HasPrefix(k, "harness.") {
			R.Obs("site:"+k, v)
		}
	}
	R.Obs("distinct_sites_hit", int64(len(sites)))
}

// mailboxstress: same oracles, free-running on all cores under the race detector with fuzz-mode points.
func TestVerif_mailboxstress(t *testing.T) {
	R := verifrt.NewReport("mailboxstress", "free-running stress under -race: 4-32 sender goroutines x 200-5000 messages (user+system, 2% with self-enqueue/pause/resume actions) plus 0-3 pauser goroutines toggling Pause/Resume, fuzz-mode yield points, ring initial size 2; oracles: overlap, exactly-once, quiescent invariant, pause rule, per-sender order, system-before-user, no stepping while quiescent. non-trivial+distinct = distinct runs (by handled-order signature) with >=2 senders")
	defer R.Flush()
	n := verifrt.EnvInt("VERIF_N", 40)
	if verifrt.Thorough() {
		n = 800
	}
	only := verifrt.EnvInt("VERIF_CASE", -1)
	for ci := 0; ci < n; ci++ {
		if !verifrt.Mine(ci) || (only >= 0 && only != ci) {
			continue
		}
		seed := verifrt.CaseSeed("mailboxstress", ci)
		rng := verifrt.NewRand(seed)
		ns := 4 + rng.Intn(29)
		per := 200 + rng.Intn(4800)
		if ns*per > 60000 {
			per = 60000 / ns
		}
		npausers := rng.Intn(4)
		desc := fmt.Sprintf("senders=%d per=%d pausers=%d", ns, per, npausers)
		R.Journal(ci, desc)
		mon := newVfMon()
		mon.mb = NewUnboundedMailbox(2, mon)
		c := verifrt.Begin(verifrt.ModeFuzz, seed, 0)
		var wg sync.WaitGroup
		var stop atomic.Bool
		idBase := 0
		for g := 0; g < ns; g++ {
			ops := make([]vfOp, per)
			r2 := verifrt.NewRand(seed + uint64(g)*7919)
			seqU, seqS := 0, 0
			for k := range ops {
				idBase++
				sys := r2.Intn(100) < 25
				msg := vfMsg{ID: idBase, Sender: g, Sys: sys}
				if sys {
					seqS++
					msg.Seq = seqS
				} else {
					seqU++
					msg.Seq = seqU
				}
				if r2.Intn(100) < 2 {
					msg.Act = 1 + r2.Intn(5)
				}
				kind := vfOpUser
				if sys {
					kind = vfOpSystem
				}
				ops[k] = vfOp{Kind: kind, Msg: msg}
			}
			wg.Add(1)
			go func(ops []vfOp) {
				defer wg.Done()
				mon.runOps(ops)
			}(ops)
		}
		var pwg sync.WaitGroup
		for p := 0; p < npausers; p++ {
			pwg.Add(1)
			go func(p int) {
				defer pwg.Done()
				r3 := verifrt.NewRand(seed + 1000003*uint64(p+1))
				for !stop.Load() {
					mon.pause()
					for k := r3.Intn(50); k > 0; k-- {
						runtime.Gosched()
					}
					mon.resume()
					for k := r3.Intn(200); k > 0; k-- {
						runtime.Gosched()
					}
				}
			}(p)
		}
		wg.Wait()
		stop.Store(true)
		pwg.Wait()
		// drain: resume until everything is handled; bounded by logical progress, watchdog is generous
		deadline := time.Now().Add(60 * time.Second)
		stalled := false
		for {
			mon.resume()
			time.Sleep(2 * time.Millisecond)
			if atomic.LoadInt32(&mon.mb.num) == 0 && atomic.LoadInt32(&mon.mb.systemNum) == 0 && atomic.LoadUint32(&mon.mb.status) == idle && mon.inflight.Load() == 0 {
				break
			}
			if time.Now().After(deadline) {
				stalled = true
				break
			}
		}
		// spin probe at quiescence: nothing pending, nobody sending -> the step counter must not move
		s1 := c.Steps()
		time.Sleep(20 * time.Millisecond)
		s2 := c.Steps()
		verifrt.End()
		R.Eval()
		var viol [][2]string
		if stalled {
			mon.mu.Lock()
			handled := len(mon.handled)
			total := len(mon.enq)
			mon.mu.Unlock()
			viol = append(viol, [2]string{"lost-wakeup", fmt.Sprintf("after all senders finished and repeated Resume calls for 60 s: handled %d of %d, status=%d num=%d systemNum=%d paused=%d", handled, total, atomic.LoadUint32(&mon.mb.status), atomic.LoadInt32(&mon.mb.num), atomic.LoadInt32(&mon.mb.systemNum), atomic.LoadUint32(&mon.mb.paused))})
		}
		if s2-s1 > 200 {
			viol = append(viol, [2]string{"spin", fmt.Sprintf("%d mailbox statements executed during 20 ms of quiescence (nothing pending, no sender)", s2-s1)})
		}
		viol = append(viol, mon.analyse(!stalled)...)
		seen := map[string]bool{}
		for _, v := range viol {
			if seen[v[0]] {
				continue
			}
			seen[v[0]] = true
			R.Violate(ci, v[0], "UnboundedMailbox", v[1]+" | "+desc, map[string]any{"config": desc})
		}
		mon.mu.Lock()
		sig := uint64(1469598103934665603)
		for i, h := range mon.handled {
			if i%17 == 0 {
				sig = (sig ^ uint64(h.msg.ID)) * 1099511628211
			}
		}
		R.Obs("messages_handled", int64(len(mon.handled)))
		R.Obs("pause_calls", int64(len(mon.pauses)))
		mon.mu.Unlock()
		R.NontrivialHash(sig)
		if ci < 2 {
			R.Sample(map[string]any{"config": desc, "yield_points_executed": c.Steps()})
		}
	}
}
