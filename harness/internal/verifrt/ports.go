//go:build verif

package verifrt

import (
	"fmt"
	"net"
	"os"
	"path/filepath"
	"sync"
	"syscall"
)

// Port lanes for the real-network checks. Every process that needs loopback ports owns one lane of 400 ports below the
// kernel's ephemeral range, exclusively and for its whole life: the lane is an flock-ed file, so no other process using
// this allocator - another shard, another check running at the same moment, a background sweep - can be handed the same
// port between "probe" and "bind" (with pid-derived lanes two concurrent runs were seen to talk to each other's
// systems). Lanes that overlap ports the repository's own tests bind (17000-18999) are never used.

var (
	laneMu   sync.Mutex
	laneBase int
	laneNext int
	laneFile *os.File // kept open: the lock lives as long as the process
)

const (
	laneWidth = 400
	laneFirst = 10000
	laneCount = 54 // 10000 .. 31599
)

func acquireLane() {
	dir := filepath.Join(os.TempDir(), "vf-port-lanes")
	if st, err := os.Stat("/dev/shm"); err == nil && st.IsDir() {
		dir = "/dev/shm/vf-port-lanes"
	}
	_ = os.MkdirAll(dir, 0o777)
	start := os.Getpid() % laneCount
	for k := 0; k < laneCount; k++ {
		lane := (start + k) % laneCount
		base := laneFirst + lane*laneWidth
		if base+laneWidth > 17000 && base < 19000 {
			continue
		}
		f, err := os.OpenFile(filepath.Join(dir, fmt.Sprintf("lane-%02d", lane)), os.O_CREATE|os.O_RDWR, 0o666)
		if err != nil {
			continue
		}
		if err := syscall.Flock(int(f.Fd()), syscall.LOCK_EX|syscall.LOCK_NB); err != nil {
			_ = f.Close()
			continue
		}
		laneFile, laneBase = f, base
		return
	}
	// every lane is taken (or the lock directory is unusable): fall back to a pid-derived lane without a lock
	laneBase = laneFirst + (os.Getpid()%laneCount)*laneWidth
	if laneBase+laneWidth > 17000 && laneBase < 19000 {
		laneBase = 19000
	}
}

// FreeAddr returns a loopback address from this process's lane that nobody listens on right now.
func FreeAddr() string {
	laneMu.Lock()
	defer laneMu.Unlock()
	if laneBase == 0 {
		acquireLane()
	}
	for tries := 0; tries < laneWidth; tries++ {
		port := laneBase + laneNext%laneWidth
		laneNext++
		a := fmt.Sprintf("127.0.0.1:%d", port)
		l, err := net.Listen("tcp", a)
		if err != nil {
			continue
		}
		_ = l.Close()
		return a
	}
	panic("no free loopback port in this process's lane")
}
