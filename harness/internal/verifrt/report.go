//go:build verif

package verifrt

import (
	"encoding/json"
	"fmt"
	"hash/fnv"
	"os"
	"path/filepath"
	"sort"
	"strconv"
	"strings"
	"sync"
	"time"
)

// Rand is a splitmix64 PRNG: tiny, deterministic, seedable per (seed, check, case).
type Rand struct{ s uint64 }

func NewRand(seed uint64) *Rand { return &Rand{s: seed + 0x9e3779b97f4a7c15} }
func (r *Rand) Uint64() uint64 {
	r.s += 0x9e3779b97f4a7c15
	z := r.s
	z = (z ^ (z >> 30)) * 0xbf58476d1ce4e5b9
	z = (z ^ (z >> 27)) * 0x94d049bb133111eb
	return z ^ (z >> 31)
}
func (r *Rand) Intn(n int) int {
	if n <= 0 {
		return 0
	}
	return int(r.Uint64() % uint64(n))
}
func (r *Rand) Bool() bool        { return r.Uint64()&1 == 1 }
func (r *Rand) Chance(p int) bool { return r.Intn(100) < p }
func (r *Rand) Pick(n int) int    { return r.Intn(n) }
func (r *Rand) Perm(n int) []int {
	p := make([]int, n)
	for i := range p {
		p[i] = i
	}
	for i := n - 1; i > 0; i-- {
		j := r.Intn(i + 1)
		p[i], p[j] = p[j], p[i]
	}
	return p
}

// Seed returns the base seed (VERIF_SEED, default 1).
func Seed() uint64 {
	if v := os.Getenv("VERIF_SEED"); v != "" {
		if n, err := strconv.ParseInt(v, 10, 64); err == nil {
			return uint64(n)
		}
	}
	return 1
}

// Thorough reports whether VERIF_TIER=thorough.
func Thorough() bool { return os.Getenv("VERIF_TIER") == "thorough" }

// Shard returns (index, count) of this process in a sharded run.
func Shard() (int, int) {
	i, _ := strconv.Atoi(os.Getenv("VERIF_SHARD"))
	n, _ := strconv.Atoi(os.Getenv("VERIF_SHARDS"))
	if n <= 0 {
		return 0, 1
	}
	return i, n
}

// Mine reports whether case index i belongs to this shard.
func Mine(i int) bool {
	s, n := Shard()
	return i%n == s
}

// EnvInt reads an integer knob (used by the driver to size tiers / replay a single case).
func EnvInt(name string, def int) int {
	if v := os.Getenv(name); v != "" {
		if n, err := strconv.Atoi(v); err == nil {
			return n
		}
	}
	return def
}

// CaseSeed derives the PRNG seed of one case.
func CaseSeed(check string, idx int) uint64 {
	h := fnv.New64a()
	h.Write([]byte(check))
	r := NewRand(Seed() ^ h.Sum64())
	r.s += uint64(idx) * 0x2545F4914F6CDD1D
	return r.Uint64()
}

// Violation is one refuting observation.
type Violation struct {
	Kind   string `json:"kind"`
	Key    string `json:"key"`
	Detail string `json:"detail"`
	Case   int    `json:"case"`
	Replay any    `json:"replay,omitempty"`
}

// Report is what a check hands back to the driver.
type Report struct {
	mu           sync.Mutex
	Check        string           `json:"check"`
	Shard        int              `json:"shard"`
	Evaluations  int64            `json:"evaluations"`
	Distinct     int64            `json:"distinct_nontrivial"`
	Rule         string           `json:"rule"`
	Samples      []any            `json:"samples"`
	Observed     map[string]int64 `json:"observed"`
	Violations   []Violation      `json:"violations"`
	ViolCount    map[string]int64 `json:"violation_counts"`
	Inconclusive []string         `json:"inconclusive"`
	Notes        []string         `json:"notes"`
	Exhaustive   bool             `json:"exhaustive"`
	WallS        float64          `json:"wall_s"`
	Complete     bool             `json:"complete"`
	sigs         map[uint64]struct{}
	t0           time.Time
	maxSamples   int
	journal      *os.File
}

func NewReport(check, rule string) *Report {
	sh, _ := Shard()
	r := &Report{Check: check, Shard: sh, Rule: rule, Observed: map[string]int64{}, ViolCount: map[string]int64{}, sigs: map[uint64]struct{}{}, t0: time.Now(), maxSamples: 4}
	if dir := os.Getenv("VERIF_OUT"); dir != "" {
		f, err := os.OpenFile(filepath.Join(dir, fmt.Sprintf("%s.%d.journal", check, sh)), os.O_CREATE|os.O_WRONLY|os.O_TRUNC, 0o644)
		if err == nil {
			r.journal = f
		}
	}
	return r
}

// Journal records, on disk and before it starts, the case about to be run (crash attribution).
func (r *Report) Journal(idx int, desc string) {
	if r.journal == nil {
		return
	}
	r.mu.Lock()
	defer r.mu.Unlock()
	r.journal.Truncate(0)
	r.journal.Seek(0, 0)
	fmt.Fprintf(r.journal, "case=%d %s\n", idx, desc)
}

func (r *Report) Eval() { r.mu.Lock(); r.Evaluations++; r.mu.Unlock() }

// Nontrivial registers a non-trivial case by signature; distinct signatures are counted.
func (r *Report) Nontrivial(sig string) {
	h := fnv.New64a()
	h.Write([]byte(sig))
	k := h.Sum64()
	r.mu.Lock()
	if _, ok := r.sigs[k]; !ok {
		r.sigs[k] = struct{}{}
		r.Distinct = int64(len(r.sigs))
	}
	r.mu.Unlock()
}

// NontrivialHash is Nontrivial for an already hashed signature.
func (r *Report) NontrivialHash(k uint64) {
	r.mu.Lock()
	if _, ok := r.sigs[k]; !ok {
		r.sigs[k] = struct{}{}
		r.Distinct = int64(len(r.sigs))
	}
	r.mu.Unlock()
}

func (r *Report) Sample(v any) {
	r.mu.Lock()
	if len(r.Samples) < r.maxSamples {
		r.Samples = append(r.Samples, v)
	}
	r.mu.Unlock()
}

func (r *Report) Obs(key string, n int64) { r.mu.Lock(); r.Observed[key] += n; r.mu.Unlock() }
func (r *Report) ObsMax(key string, n int64) {
	r.mu.Lock()
	if n > r.Observed[key] {
		r.Observed[key] = n
	}
	r.mu.Unlock()
}

// Violate records a violation classified by (kind,key). At most 3 full witnesses per (kind,key)
// are kept, the rest only counted.
func (r *Report) Violate(idx int, kind, key, detail string, replay any) {
	r.mu.Lock()
	defer r.mu.Unlock()
	k := kind + "|" + key
	r.ViolCount[k]++
	if r.ViolCount[k] <= 3 {
		if len(detail) > 50000 {
			detail = detail[:50000] + "…"
		}
		r.Violations = append(r.Violations, Violation{Kind: kind, Key: key, Detail: detail, Case: idx, Replay: replay})
	}
}

func (r *Report) Inconcl(reason string) {
	r.mu.Lock()
	r.Inconclusive = append(r.Inconclusive, reason)
	r.mu.Unlock()
}
func (r *Report) Note(s string) { r.mu.Lock(); r.Notes = append(r.Notes, s); r.mu.Unlock() }

// NViol returns the number of violations recorded so far.
func (r *Report) NViol() int {
	r.mu.Lock()
	defer r.mu.Unlock()
	n := 0
	for _, v := range r.ViolCount {
		n += int(v)
	}
	return n
}

// Flush writes the report where the driver expects it. Safe to call several times.
func (r *Report) Flush() {
	r.mu.Lock()
	defer r.mu.Unlock()
	r.WallS = time.Since(r.t0).Seconds()
	r.Complete = true
	dir := os.Getenv("VERIF_OUT")
	if dir == "" {
		b, _ := json.MarshalIndent(r, "", " ")
		fmt.Println(string(b))
		return
	}
	b, err := json.Marshal(r)
	if err != nil {
		b, _ = json.Marshal(map[string]any{"check": r.Check, "error": err.Error()})
	}
	tmp := filepath.Join(dir, fmt.Sprintf("%s.%d.json.tmp", r.Check, r.Shard))
	os.WriteFile(tmp, b, 0o644)
	os.Rename(tmp, filepath.Join(dir, fmt.Sprintf("%s.%d.json", r.Check, r.Shard)))
}

// SortedKeys is a small helper for deterministic iteration.
func SortedKeys[V any](m map[string]V) []string {
	ks := make([]string, 0, len(m))
	for k := range m {
		ks = append(ks, k)
	}
	sort.Strings(ks)
	return ks
}

// Short clips a string for evidence samples.
func Short(s string, n int) string {
	s = strings.TrimSpace(s)
	if len(s) > n {
		return s[:n] + "…"
	}
	return s
}
