//go:build verif

// Package verifrt is the runtime support library of the /verif harness. It is never part of the
// repository: the driver maps it into /repo/internal/verifrt with a build overlay at check time.
// Pure stdlib, imports nothing from vivid (instrumented vivid packages import it).
package verifrt

import (
	"math/rand/v2"
	"runtime"
	"sync"
	"sync/atomic"
	"time"
)

// Mode of the active Point controller.
type Mode int

const (
	ModeOff    Mode = iota
	ModeCount       // only count site hits
	ModeSerial      // virtual-time serialized random schedule (inside a synctest bubble only)
	ModeFuzz        // free running: random Gosched / short spin
	ModeInject      // virtual time: sleep 1ns at planned (site,nth) pairs
	// ModeFuzzFree is ModeFuzz without any shared state: no counters, no lock, the decision comes from the runtime's
	// per-thread generator. A mutex or a shared atomic inside P would add happens-before edges between the goroutines
	// under observation and hide from the race detector exactly the races the widened windows are meant to expose.
	ModeFuzzFree
)

// Ctl is one case's Point controller.
type Ctl struct {
	mu       sync.Mutex
	mode     Mode
	rng      *Rand
	steps    int64
	budget   int64
	aborted  bool
	hash     uint64
	taken    map[int64]struct{}
	sites    map[string]int64
	plan     map[string]int64 // inject: site -> nth hit (1-based)
	injected int
	// idle-step accounting: steps since the last Progress() call
	sinceProgress    int64
	maxSinceProgress int64
}

var cur atomic.Pointer[Ctl]

// Begin installs a controller. budget<=0 means unlimited.
func Begin(mode Mode, seed uint64, budget int64) *Ctl {
	c := &Ctl{mode: mode, rng: NewRand(seed), budget: budget, taken: map[int64]struct{}{}, sites: map[string]int64{}}
	cur.Store(c)
	return c
}

// BeginInject installs an inject-mode controller with the given plan.
func BeginInject(plan map[string]int64, budget int64) *Ctl {
	c := &Ctl{mode: ModeInject, rng: NewRand(1), budget: budget, taken: map[int64]struct{}{}, sites: map[string]int64{}, plan: plan}
	cur.Store(c)
	return c
}

// End removes the controller.
func End() { cur.Store(nil) }

// Active reports whether a controller is installed.
func Active() bool { return cur.Load() != nil }

// Progress tells the controller that externally visible work happened (a handler ran, an external
// operation was issued). Used by the spin oracle: steps without progress are "idle" steps.
func Progress() {
	c := cur.Load()
	if c == nil {
		return
	}
	c.mu.Lock()
	c.sinceProgress = 0
	c.mu.Unlock()
}

// P is the instrumentation point inserted by vinstr before statements.
func P(site string) {
	c := cur.Load()
	if c == nil {
		return
	}
	if c.mode == ModeFuzzFree {
		switch r := rand.Uint32() % 100; {
		case r < 15:
			runtime.Gosched()
		case r < 22:
			// a short busy wait counted in iterations, not in time (inside a synctest bubble the clock stands still
			// while a goroutine runs)
			for i := uint32(0); i < 300*(1+r%3); i++ {
				_ = rand.Uint32()
			}
		}
		return
	}
	c.mu.Lock()
	c.steps++
	c.sinceProgress++
	if c.sinceProgress > c.maxSinceProgress {
		c.maxSinceProgress = c.sinceProgress
	}
	c.sites[site]++
	nth := c.sites[site]
	if c.budget > 0 && c.steps > c.budget {
		c.aborted = true
		c.mu.Unlock()
		runtime.Goexit()
	}
	switch c.mode {
	case ModeCount:
		c.mu.Unlock()
	case ModeSerial:
		// bursty delays: mostly 1 ns (the goroutine keeps going), often up to 5 us (another goroutine overtakes by a few
		// statements), and now and then a stall of up to 500 us during which everybody else runs to completion - the
		// schedules in which one party sits between two of its statements while a whole Resume + consumer run goes by
		var d int64
		switch r := c.rng.Intn(100); {
		case r < 66:
			d = 1
		case r < 95:
			d = int64(1 + c.rng.Intn(5000))
		default:
			d = int64(20000 + c.rng.Intn(480000))
		}
		now := time.Now().UnixNano()
		for {
			if _, ok := c.taken[now+d]; !ok {
				break
			}
			d++
		}
		c.taken[now+d] = struct{}{}
		for i := 0; i < len(site); i++ {
			c.hash = (c.hash ^ uint64(site[i])) * 1099511628211
		}
		c.hash = (c.hash ^ 0xff) * 1099511628211
		c.mu.Unlock()
		time.Sleep(time.Duration(d))
	case ModeInject:
		want, ok := c.plan[site]
		fire := ok && want == nth
		if fire {
			c.injected++
		}
		c.mu.Unlock()
		if fire {
			time.Sleep(time.Nanosecond)
		}
	case ModeFuzz:
		r := c.rng.Intn(100)
		c.mu.Unlock()
		if r < 20 {
			runtime.Gosched()
		} else if r < 25 {
			t := time.Now()
			for time.Since(t) < 2*time.Microsecond {
			}
		}
	default:
		c.mu.Unlock()
	}
}

func (c *Ctl) Steps() int64 { c.mu.Lock(); defer c.mu.Unlock(); return c.steps }
func (c *Ctl) Aborted() bool { c.mu.Lock(); defer c.mu.Unlock(); return c.aborted }
func (c *Ctl) Hash() uint64  { c.mu.Lock(); defer c.mu.Unlock(); return c.hash }
func (c *Ctl) Injected() int { c.mu.Lock(); defer c.mu.Unlock(); return c.injected }
func (c *Ctl) MaxIdleSteps() int64 {
	c.mu.Lock()
	defer c.mu.Unlock()
	return c.maxSinceProgress
}
func (c *Ctl) Sites() map[string]int64 {
	c.mu.Lock()
	defer c.mu.Unlock()
	m := make(map[string]int64, len(c.sites))
	for k, v := range c.sites {
		m[k] = v
	}
	return m
}
