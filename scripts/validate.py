#!/usr/bin/env python3
"""Validate MANIFEST.json and every evidence file against the given schemas (run with python3-vt)."""
import json, sys, glob, jsonschema
ok = True
def chk(path, schema):
    global ok
    try:
        jsonschema.validate(json.load(open(path)), json.load(open(schema)))
        print("valid  ", path)
    except Exception as e:
        ok = False
        print("INVALID", path, str(e)[:400])
chk('/verif/MANIFEST.json', '/root/.vp/MANIFEST.schema.json')
for f in sorted(glob.glob('/verif/evidence/*.json')):
    chk(f, '/root/.vp/EVIDENCE.schema.json')
m = json.load(open('/verif/MANIFEST.json'))
ids = {json.loads(l)['id'] for l in open('/verif/properties.jsonl')}
claimed = {c['property_id'] for c in m['checks']}
na = {c['property_id'] for c in m.get('not_applicable', [])}
if claimed | na != ids or claimed & na:
    ok = False
    print("MISMATCH claimed/not_applicable vs properties:", sorted(ids - claimed - na), sorted(claimed & na))
sys.exit(0 if ok else 1)
