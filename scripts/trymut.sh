#!/bin/sh
# usage: trymut.sh <Cxx> <patch.diff> [tier]   — applies a patch to /repo, runs the check, reverts. For monitor validation only.
id=$1; patch=$2; tier=${3:-quick}
cd /repo || exit 2
git apply "$patch" || { echo "patch does not apply"; exit 2; }
cd /verif && VERIF_NO_EVIDENCE=1 ./bin/vcheck run "$id" --tier "$tier" | cut -c1-400 | head -${LINES_MAX:-25}
rc=$?
git -C /repo checkout -- . 
git -C /repo status --short | head -3
rm -rf /verif/evidence/replay
