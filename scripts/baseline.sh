#!/bin/sh
# Runs the repository's pinned suite (guard off) and checks that every test in BASELINE.stable_pass passes.
cd "${REPO_DIR:-/repo}" || exit 2
# the suite binds fixed TCP ports (8080, 8081, 17000...): run it in a private network namespace when possible, so that
# other suites running on this machine at the same time cannot collide with it
NS=""
if unshare -n true 2>/dev/null; then NS="unshare -n"; fi
$NS sh -c 'ip link set lo up 2>/dev/null; GOFLAGS=-mod=mod GOPROXY=off go test -json -vet=off -count=1 -timeout 25m ./...' > /dev/shm/baseline.json 2>/dev/shm/baseline.err
python3 - <<'PY'
import json,sys
b=json.load(open('/root/.vp/BASELINE.json'))
stable=set(b['stable_pass'])
res={}
for l in open('/dev/shm/baseline.json'):
    try: e=json.loads(l)
    except: continue
    if e.get('Action') in('pass','fail','skip') and e.get('Test'):
        res[e['Package']+'::'+e['Test']]=e['Action']
missing=[t for t in stable if res.get(t)!='pass']
flaky=set(b['flaky'])
otherfail=[t for t,a in res.items() if a=='fail' and t not in stable]
print(f"stable={len(stable)} passed={len(stable)-len(missing)} failing_or_missing={len(missing)} other_failures={len(otherfail)} (flaky-listed: {len([t for t in otherfail if t in flaky])})")
for t in missing: print("  MISSING/FAIL", t, res.get(t))
for t in otherfail: print("  other fail", t, "(flaky in baseline)" if t in flaky else "")
sys.exit(1 if missing else 0)
PY
