#!/bin/bash
# usage: seed_pipeline.sh <seed_id> [tier]   — /tmp/seedout/<seed_id>/ must hold patch.diff, a zz_demo*_test.go and README.md.
# Confirms the change in a scratch worktree (confirm_seed.sh), then runs the owning property's check on /repo with the
# change applied (run_seed.sh) and undoes it. Everything is logged to /tmp/scr/<seed_id>.pipeline; prints a 3-line summary.
id=$1; tier=${2:-quick}; prop=${id%%-*}
mkdir -p /tmp/scr /tmp/mut
log=/tmp/scr/$id.pipeline
/verif/scripts/confirm_seed.sh /tmp/seedout/$id $id $prop > $log 2>&1
grep "^RESULT" $log
if grep -q "CONFIRMED" $log; then
  # serialise runs against /repo (the patch is applied to the working tree)
  flock /tmp/mut/repo.lock /verif/scripts/run_seed.sh $id $prop $tier >> $log 2>&1
  grep -A3 "^SEED" $log | cut -c1-600
fi
