#!/bin/bash
# usage: run_seed.sh <seed_id> <property> [tier]  — applies /verif/seeded/<seed_id>/patch.diff to /repo, runs the property's check, undoes it.
id=$1; prop=$2; tier=${3:-quick}
cd /repo && git apply /verif/seeded/$id/patch.diff || { echo "SEED $id: patch does not apply"; exit 2; }
cd /verif && out=$(VERIF_NO_EVIDENCE=1 ./bin/vcheck run $prop --tier $tier 2>&1); rc=$?
git -C /repo checkout -- .
rm -rf /verif/evidence/replay
kinds=$(echo "$out" | grep -o "kind=[^ ]*" | sort | uniq -c | sort -rn | head -5 | awk '{print $2"x"$1}' | tr '\n' ' ')
echo "SEED $id property=$prop tier=$tier exit=$rc kinds: $kinds"
echo "$out" | grep -A2 "^VIOLATION" | head -4 | cut -c1-400
