#!/bin/sh
# Builds the driver and the instrumenter from files on disk only (stdlib-only Go programs).
set -e
cd "$(dirname "$0")/.."
mkdir -p bin evidence
GO=go
for c in /root/go/pkg/mod/golang.org/toolchain@v0.0.1-go1.26.0.linux-amd64/bin/go /opt/veriftools/go1.26/bin/go /opt/veriftools/go1.26.8/bin/go; do
  if [ -x "$c" ]; then GO="$c"; break; fi
done
export GOFLAGS= GOPROXY=off GOSUMDB=off GOTOOLCHAIN=local GOWORK=off
"$GO" build -o bin/vcheck ./cmd/vcheck
"$GO" build -o bin/vinstr ./cmd/vinstr
echo "setup ok ($($GO version))"
