#!/usr/bin/env python3
import json,sys,re
d=json.load(open(sys.argv[1]))
det=d['detail']
n=int(sys.argv[2]) if len(sys.argv)>2 else 6000
print(d['kind'],d['key'],'case',d['case'])
print(det[:n])
