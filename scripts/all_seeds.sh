#!/bin/bash
# usage: all_seeds.sh [tier]  — applies every /verif/seeded/<id>/patch.diff to /repo in turn, runs the property's check, undoes it.
# Prints one line per seed; exit 1 if a seed is not reported (or does not apply to the current tree).
tier=${1:-quick}; bad=0
cd /verif
for d in seeded/*/; do
  id=$(basename $d); prop=${id%%-*}
  if grep -q "status_on_final_tree" /verif/$d/meta.json 2>/dev/null; then echo "SEED $id: superseded on the final tree (see meta.json)"; continue; fi
  if ! git -C /repo apply --check /verif/$d/patch.diff 2>/dev/null; then echo "SEED $id: patch does not apply to the current tree"; bad=1; continue; fi
  line=$(./scripts/run_seed.sh $id $prop $tier 2>&1 | head -1)
  echo "$line" | cut -c1-260
  echo "$line" | grep -q "exit=1" || bad=1
done
git -C /repo status --short | head -3
exit $bad
