#!/bin/bash
# usage: confirm_seed.sh <src_dir_with_patch.diff_and_demo> <seed_id> <property>
# Confirms a seeded change in a scratch worktree (outside /repo and /verif): applies, builds, runs the pinned suite,
# runs the demonstration with the change (must fail) and without (must pass); then stores it under /verif/seeded/<seed_id>.
src=$1; id=$2; prop=$3
wt=/tmp/scr/$id
export GOFLAGS=-mod=mod GOPROXY=off
mkdir -p /tmp/scr; git -C /repo worktree remove --force $wt 2>/dev/null; rm -rf $wt
git -C /repo worktree add -q --detach $wt HEAD || exit 2
res() { echo "RESULT $id: $*"; }
cleanup() { git -C /repo worktree remove --force $wt 2>/dev/null; rm -rf $wt; }
cd $wt
if ! git apply --check $src/patch.diff 2>/dev/null; then res "patch does not apply to current HEAD"; cleanup; exit 1; fi
git apply $src/patch.diff
if ! go build ./... 2>/tmp/scr/$id.build; then res "does not build"; cat /tmp/scr/$id.build | head; cleanup; exit 1; fi
suite=$(REPO_DIR=$wt flock /tmp/mut/suite.lock /verif/scripts/baseline.sh 2>&1)
echo "$suite" | head -8
if ! echo "$suite" | grep -q "failing_or_missing=0"; then
  suite2=$(REPO_DIR=$wt flock /tmp/mut/suite.lock /verif/scripts/baseline.sh 2>&1); echo "retry: $suite2" | head -5
  if ! echo "$suite2" | grep -q "failing_or_missing=0"; then res "suite fails with the change"; cleanup; exit 1; fi
fi
# demos
demos=$(ls $src/*_test.go 2>/dev/null)
fail_with=0; pass_without=0; pkgs=""
for d in $demos; do
  place=$(head -3 $d | grep -o "place at: [^ ]*" | head -1 | sed 's/place at: //')
  [ -z "$place" ] && { res "demo $d has no 'place at:' line"; continue; }
  mkdir -p $(dirname $wt/$place); cp $d $wt/$place
  pkgs="$pkgs ./$(dirname $place)"
done
pkgs=$(echo $pkgs | tr ' ' '\n' | sort -u | tr '\n' ' ')
NS=""; if unshare -n true 2>/dev/null; then NS="unshare -n"; fi
run_demo() { $NS sh -c "ip link set lo up 2>/dev/null; exec go test -vet=off -count=1 -timeout 10m -run Demo $pkgs" > /tmp/scr/$id.demo.$1 2>&1; echo $?; }
rc_with=$(run_demo with)
git apply -R $src/patch.diff
rc_without=$(run_demo without)
echo "demo with change: exit $rc_with ; without: exit $rc_without"
if [ "$rc_with" = "0" ]; then res "demo does not fail with the change"; tail -5 /tmp/scr/$id.demo.with; cleanup; exit 1; fi
if [ "$rc_without" != "0" ]; then res "demo fails without the change"; tail -15 /tmp/scr/$id.demo.without; cleanup; exit 1; fi
mkdir -p /verif/seeded/$id; cp $src/patch.diff /verif/seeded/$id/; cp $demos /verif/seeded/$id/; [ -f $src/README.md ] && cp $src/README.md /verif/seeded/$id/README.md
res "CONFIRMED (suite passes with change; demo fails with, passes without)"
cleanup
