#!/bin/bash
# usage: seeds_wt.sh [tier] [seed-id ...]   — development aid: runs every seeded change against its property's check in a
# scratch worktree of /repo (VERIF_REPO), three at a time, without touching /repo itself. One line per seed.
# (The registered way - apply to /repo, run, undo - is scripts/run_seed.sh / all_seeds.sh.)
tier=${1:-quick}; shift
ids="$@"; [ -z "$ids" ] && ids=$(ls /verif/seeded)
mkdir -p /tmp/scr
one() {
  id=$1; tier=$2; prop=${id%%-*}; wt=/tmp/scr/wt-$id
  if grep -q "status_on_final_tree" /verif/seeded/$id/meta.json 2>/dev/null; then echo "SEED $id: superseded on the final tree (see meta.json)"; return; fi
  git -C /repo worktree remove --force $wt 2>/dev/null; rm -rf $wt
  git -C /repo worktree add -q --detach $wt HEAD || { echo "SEED $id: worktree failed"; return; }
  if ! git -C $wt apply /verif/seeded/$id/patch.diff 2>/dev/null; then echo "SEED $id: patch does not apply to the current tree"; git -C /repo worktree remove --force $wt; return; fi
  out=$(cd /verif && VERIF_REPO=$wt VERIF_NO_EVIDENCE=1 VERIF_REPLAY_DIR=/tmp/scr/replay-$id ./bin/vcheck run $prop --tier $tier 2>&1); rc=$?
  kinds=$(echo "$out" | grep -o "kind=[^ ]*" | sort | uniq -c | sort -rn | head -4 | awk '{print $2}' | tr '\n' ' ')
  nv=$(echo "$out" | grep -o "violations=[0-9]*" | tail -1)
  echo "SEED $id property=$prop tier=$tier exit=$rc $nv kinds: $kinds"
  git -C /repo worktree remove --force $wt; rm -rf $wt
}
export -f one
printf "%s\n" $ids | xargs -P 3 -I{} bash -c "one {} $tier"
