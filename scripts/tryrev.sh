#!/bin/sh
# usage: tryrev.sh <Cxx> <commit-diff>  — reverse-applies a fix commit to /repo, runs the check (all kinds), restores.
id=$1; patch=$2
cd /repo && git apply -R "$patch" || { echo "cannot reverse"; exit 2; }
cd /verif && VERIF_ALLKINDS=1 VERIF_NO_EVIDENCE=1 ./bin/vcheck run "$id" --tier ${3:-quick} | cut -c1-${WIDTH:-500} | head -${LINES_MAX:-25}
git -C /repo checkout -- .
rm -rf /verif/evidence/replay
