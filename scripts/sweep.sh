#!/bin/bash
# usage: sweep.sh <tier> <seed> [Cxx ...]   — runs checks from the directory it lives in (works inside a `vp run` snapshot),
# without touching evidence files; prints one line per property plus every VIOLATION / INCONCLUSIVE / ERROR line.
here=$(cd "$(dirname "$0")/.." && pwd)
tier=$1; seed=$2; shift 2
props="$@"; [ -z "$props" ] && props="C01 C02 C03 C04 C05 C06 C07 C08 C09 C10 C11 C12 C13 C14 C15 C16 C17 C18 C19 C20"
cd $here && ./scripts/setup.sh >/dev/null || exit 2
mkdir -p $here/sweeplogs
for p in $props; do
  s=$(date +%s)
  VERIF_DIR=$here VERIF_NO_EVIDENCE=1 VERIF_SEED=$seed ./bin/vcheck run $p --tier $tier > $here/sweeplogs/$p.$tier.$seed.log 2>&1; rc=$?
  echo "SWEEP $p tier=$tier seed=$seed exit=$rc $(( $(date +%s)-s ))s"
  grep -E "^(VIOLATION|INCONCLUSIVE|ERROR|KNOWN-FINDING)" $here/sweeplogs/$p.$tier.$seed.log | cut -c1-300 | head -10
done
