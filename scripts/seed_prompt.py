#!/usr/bin/env python3
"""usage: seed_prompt.py <property id> <seed id> [focus text]
Prints the brief handed to an independent sub-agent that is asked for a breaking change: the property record
and the path of its own scratch worktree, nothing from /verif's machinery."""
import json, sys
pid, sid = sys.argv[1], sys.argv[2]
focus = sys.argv[3] if len(sys.argv) > 3 else ""
rec = None
for l in open('/verif/properties.jsonl'):
    p = json.loads(l)
    if p['id'] == pid:
        rec = p
wt = f"/tmp/seedwt/{sid}"
out = f"/tmp/seedout/{sid}"
print(f"""You are helping to evaluate a verification effort for the Go library kercylan98/vivid (an actor-model library: mailboxes, supervision, scheduler, TCP remoting, a binary codec, gossip cluster membership). Your job is to act as a *realistic bug author*: produce ONE small source change to the library that BREAKS the semantic property given below, while the library still compiles and its existing test suite still passes, and write a demonstration that exposes the break.

Work ONLY inside your own scratch git worktree: {wt}   (a detached worktree of the library at its current commit). Never read or write anything under /repo or /verif, never commit, never push. Write your deliverables to {out}/ .

## The property (this record is all the specification you get)

```json
{json.dumps(rec, indent=1, ensure_ascii=False)}
```
{('Focus hint (to keep several independent authors from colliding): prefer a change in this area of the anchored code: ' + focus) if focus else ''}

## What kind of change is wanted

* A change a real developer could plausibly make (a refactoring slip, a "simplification", an optimisation, a reordered pair of statements, a dropped check, an off-by-one, a wrong condition), 1-15 changed lines, in non-test library source files only. No new files, no changes to tests, no build tags, no deliberate "if magic value" trapdoors.
* It must violate the property's statement (not merely some internal detail) in a way that a user relying on the property would be hurt by.
* It must need something SPECIFIC to manifest: a particular interleaving, a crash or fault at a particular point, a multi-step sequence of operations, an unusual input or boundary value, or two cooperating sites that each look fine alone. NOT something ordinary use would expose at once, and not something the existing tests catch.
* With the change applied: `go build ./...` succeeds and the existing test suite passes (see command below).

## Environment (offline sandbox)

* Every shell command needs: `export GOFLAGS=-mod=mod GOPROXY=off` (do NOT set GOSUMDB=off or GOTOOLCHAIN=local - the go command auto-switches to the cached go1.26 toolchain). No network; nothing can be downloaded.
* Existing suite: `cd {wt} && go test -vet=off -count=1 -timeout 25m ./...`  (about 30-60 s; the tests use fixed TCP ports, so if it fails with 'address already in use' or another obviously unrelated flake, wait a little and re-run; another author may be running it at the same moment. These tests are known-flaky and may be ignored if they fail with and without your change: TestContext_Supervision/one_for_all_graceful_restart, TestScheduler_Once, TestSystem_HandleRemotingEnvelop_InvalidAgentRef, TestSystem_Metrics, TestSystem_RemotingAsk, TestSystem_Start, TestSystem_Stop, TestSystem_WithRemoting, TestCluster_Singleton.) Do not run the suite with -race (one test sends 10M messages and gets OOM-killed).
* Use `net.Listen("tcp","127.0.0.1:0")`-style free ports (never 8080/8081/17000-18100) in anything you write.
* Go 1.26 is in use, so `testing/synctest` is available if you want virtual time in your demonstration.

## Deliverables in {out}/

1. `patch.diff` - output of `git -C {wt} diff` containing ONLY the library change (not the demonstration).
2. One demonstration test file `zz_demo_{sid.replace('-', '_').lower()}_test.go` whose FIRST line is the comment `// place at: <path relative to the repository root where this file must be copied, e.g. internal/actor/zz_demo_{sid.replace('-', '_').lower()}_test.go>` and whose test function names all start with `TestDemo`. It will be run as `go test -vet=off -count=1 -timeout 10m -run Demo ./<that package dir>`. It must FAIL (deterministically, or at least 9 times out of 10) with your change and PASS (every time) without it. It may be an in-package test (package of the directory) and may use unexported identifiers. Keep its run time under 2 minutes. It must fail by itself (t.Fatal / t.Error / panic / timeout guarded by your own deadline), not hang forever.
3. `README.md` - 10-25 lines: what the change is, which clause of the property it breaks, what exactly is needed for it to manifest (the interleaving / sequence / input), why the existing tests do not see it, and the exact commands you ran with their outcome (suite with change, demo with change, demo without change).

Before you finish: verify all three yourself (suite passes with the change; demo fails with it; `git -C {wt} stash` or `git apply -R` then demo passes without it; then restore the change), and leave the worktree with the change applied and the demo file in place. Be efficient: read the anchored files first, pick one mechanism, make the change, prove it. If your first idea turns out to be caught by the existing tests or does not actually violate the property's statement, pick another. Your final message should be a 5-line summary (files changed, clause broken, what it needs to manifest, results of the three verifications).""")
