#!/usr/bin/env python3
"""usage: seed_meta.py <seed_id> <property> <needs> <detected_by> [note]"""
import json,sys,os,subprocess
sid,prop,needs,det=sys.argv[1:5]
note=sys.argv[5] if len(sys.argv)>5 else ""
d='/verif/seeded/'+sid
head=subprocess.check_output(['git','-C','/repo','rev-parse','--short','HEAD']).decode().strip()
meta={"seed_id":sid,"breaks_property":prop,"origin":"independent sub-agent given only the property record and its own scratch worktree",
"needs_to_manifest":needs,
"confirmed":{"by":"scripts/confirm_seed.sh in a scratch worktree under /tmp/scr (removed afterwards)","repo_head":head,
 "steps":["git apply patch.diff","go build ./...","pinned suite (scripts/baseline.sh): all 231 stable tests pass with the change","demonstration test fails with the change","demonstration test passes without the change"]},
"check_result":{"cmd":f"scripts/run_seed.sh {sid} {prop}  (git -C /repo apply; ./bin/vcheck run {prop} --tier quick; git -C /repo checkout -- .)","detected_by":det},
"note":note,
"files":sorted(os.listdir(d))}
json.dump(meta,open(d+'/meta.json','w'),indent=1)
print("wrote",d+'/meta.json')
